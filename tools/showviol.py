#!/usr/bin/env python3
import json,sys,re
n=int(sys.argv[2]) if len(sys.argv)>2 else 5
kind=sys.argv[3] if len(sys.argv)>3 else None
seen=0
for l in open(sys.argv[1]):
    if '"viol"' not in l: continue
    d=json.loads(l)
    if kind and d['kind']!=kind: continue
    if 'witness' not in d: continue
    seen+=1
    if seen>n: break
    print('=== case',d['case'],d['kind'],d['sig'],d['msg'][:400])
    w=d['witness']
    src=w.get('input','')
    m=re.search(r'Parse\(Some\(\("[^"]*", (\d+)\)',d['msg'])
    if m:
        o=int(m.group(1)); b=src.encode()
        print('  ...',repr(b[max(0,o-100):o].decode(errors='replace')),'>>>',repr(b[o:o+60].decode(errors='replace')))
    else:
        print(src[:1500])
