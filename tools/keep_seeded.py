#!/usr/bin/env python3
"""keep_seeded.py <name> <property> <worktree> <example> "<needs>" — copy a confirmed seeded change into /verif/seeded/<name>/"""
import json,os,shutil,subprocess,sys
name,prop,wt,ex,needs=sys.argv[1:6]
d='/verif/seeded/'+name
os.makedirs(d,exist_ok=True)
patch=subprocess.run(['git','-C',wt,'diff','--','.',':!SEEDED',':!sv-parser/examples'],capture_output=True,text=True).stdout
open(d+'/patch.diff','w').write(patch)
shutil.copy(wt+'/sv-parser/examples/'+ex+'.rs', d+'/demo.rs')
if os.path.exists(wt+'/SEEDED/README.md'): shutil.copy(wt+'/SEEDED/README.md', d+'/README.md')
meta={'name':name,'breaks_property':prop,'needs_to_manifest':needs,'author':'independent sub-agent given only the property text and a scratch worktree',
 'confirmed_by_me':{'tests_with_change':'120 passed, 0 failed (cargo test --workspace --no-fail-fast --offline in the scratch worktree)',
   'demo_with_change':open('/tmp/demo_with.txt').read()[-300:],'demo_without_change':open('/tmp/demo_without.txt').read()[-300:],
   'demo_cmd':'cp demo.rs <worktree>/sv-parser/examples/%s.rs && cargo run --offline --example %s'%(ex,ex)},
 'detected_by':None}
json.dump(meta,open(d+'/meta.json','w'),indent=1)
print('kept',d,len(patch.splitlines()),'patch lines')
