#!/usr/bin/env python3
"""floors_from_evidence.py <props...> — hand-run: for floor keys named in propcfg.py that floors.json does not have yet, take
0.5 x the value in the current evidence file (a quick run on the unchanged tree) as the quick floor and derive the thorough one
like derive_thorough_floors.py does.  Keys that already have a floor are left alone.  Nothing is calibrated at check time."""
import json, os, sys
sys.path.insert(0, os.path.dirname(os.path.abspath(__file__)))
import propcfg
RATIO = {'C01': 600000 / 32000, 'C02': 20, 'C03': 500000 / 24000, 'C04': 5000000 / 240000, 'C05': 5000000 / 240000, 'C06': 20,
         'C07': 500000 / 24000, 'C08': 500000 / 24000, 'C09': 40000 / 1500 * 0.88, 'C10': 3000000 / 160000, 'C11': 3000000 / 160000,
         'C12': 200000 / 9000, 'C13': 400000 / 24000, 'C14': 300000 / 16000, 'C15': 20, 'C16': 400000 / 24000, 'C17': 20,
         'C18': 20, 'C19': 4000 / 256, 'C20': 20}
fp = '/verif/tools/floors.json'
f = json.load(open(fp))
for p in sys.argv[1:]:
    ev = json.load(open('/verif/evidence/%s.json' % p))
    assert ev['tier'] == 'quick' and ev['violations'] == 0, p
    obs = ev['coverage']['observed']
    for k in propcfg.PROPS[p].get('floors', {}).get('quick', {}):
        if k not in f[p]['quick']:
            q = int(obs.get(k, 0) * 0.5)
            f[p]['quick'][k] = q
            f[p]['thorough'][k] = int(q * RATIO[p] * 0.5)
            print(p, k, 'observed', obs.get(k, 0), 'quick floor', q, 'thorough floor', f[p]['thorough'][k])
json.dump(f, open(fp, 'w'), indent=1, sort_keys=True)
