#!/usr/bin/env python3
"""extra_probe.py [seen-sets.json] — hand-run: try every record of corpus/extra.txt against the current tree,
report rejections (with the error) and the node kinds each accepted record adds to a given observation set."""
import json,subprocess,sys,re,os
recs=[r.strip('\n')+'\n' for r in open('/verif/corpus/extra.txt').read().split('\n%%%\n')]
seen=set(json.load(open(sys.argv[1]))['node_kinds']) if len(sys.argv)>1 else set()
gained=set()
for i,r in enumerate(recs):
    p=subprocess.run(['/verif/target/verif/svverif','probe','sv','@','--tree'],input=r,capture_output=True,text=True)
    out=p.stdout
    first=out.split('\n',1)[0]
    if not first.startswith('OK'):
        print('#%d REJECTED: %s | %s'%(i,first[:200],r[:60].replace('\n',' ')))
        continue
    kinds=set(l.strip() for l in out.splitlines()[1:] if not l.strip().startswith('Token:'))
    new=kinds-seen-gained
    gained|=new
    print('#%d ok, %d kinds, new: %s'%(i,len(kinds),' '.join(sorted(new))[:3000]))
print('TOTAL new kinds',len(gained))
