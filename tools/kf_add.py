#!/usr/bin/env python3
"""kf_add.py ID PROPS(comma) STATUS COMMIT|- SIGS(comma|-) WHAT  — edit known_findings.json by hand-run tool (never at check time)"""
import json,sys
i,props,status,commit,sigs,what=sys.argv[1:7]
p='/verif/known_findings.json'
d=json.load(open(p))
d['findings']=[f for f in d['findings'] if f['id']!=i]
e={'id':i,'properties':props.split(','),'status':status,'signatures':[] if sigs=='-' else sigs.split(','),'what':what}
if commit!='-': e['commit']=commit
for pr in e['properties']:
    pass
if status=='fixed':
    e['line']='; '.join('fixed: property=%s %s %s'%(pr,commit,what) for pr in e['properties'])
else:
    e['line']='; '.join('KNOWN-FINDING: property=%s %s %s'%(pr,i,what) for pr in e['properties'])
d['findings'].append(e)
json.dump(d,open(p,'w'),indent=1,ensure_ascii=False)
