#!/usr/bin/env python3
"""calibrate.py quick|thorough [props...] — hand-run: run checks at seeds 1..3 (floors disabled) and write tools/floors.json with
0.6 x the minimum observed value of every floor key named in propcfg.py.  Checks read floors.json; nothing is calibrated at check time."""
import json, os, subprocess, sys
sys.path.insert(0, os.path.dirname(os.path.abspath(__file__)))
import propcfg
tier = sys.argv[1]
props = sys.argv[2:] or sorted(propcfg.PROPS)
seeds = [1, 2, 3] if tier == 'quick' else [1]
fp = '/verif/tools/floors.json'
floors = json.load(open(fp)) if os.path.exists(fp) else {}
for p in props:
    keys = list(propcfg.PROPS[p].get('floors', {}).get('quick', {}).keys())
    mins = {}
    times = []
    for s in seeds:
        env = dict(os.environ, VERIF_SEED=str(s), SVVERIF_NO_FLOORS='1')
        r = subprocess.run(['./check', p, tier], cwd='/verif', env=env, capture_output=True, text=True)
        ev = json.load(open('/verif/evidence/%s.json' % p))
        obs = ev['coverage']['observed']
        times.append(ev['wall_s'])
        for k in keys:
            v = obs.get(k, 0)
            mins[k] = v if k not in mins else min(mins[k], v)
        if r.returncode == 1:
            print('!!', p, 'seed', s, 'VIOLATION'); print(r.stdout[-800:])
    floors.setdefault(p, {})[tier] = {k: int(v * 0.6) for k, v in mins.items()}
    print(p, tier, 'wall', times, floors[p][tier])
    json.dump(floors, open(fp, 'w'), indent=1, sort_keys=True)
