#!/usr/bin/env python3
"""derive_thorough_floors.py — hand-run after calibrate.py quick: thorough floor = quick floor x (thorough cases / quick cases) x 0.5
for counters that grow with the number of random cases; counters of fixed sub-workloads (sweeps, the C17 catalogue, the C09
families) keep their quick floor.  Nothing is derived at check time."""
import json, re
RATIO = {'C01': 600000 / 32000, 'C02': 20, 'C03': 500000 / 24000, 'C04': 5000000 / 240000, 'C05': 5000000 / 240000, 'C06': 20,
         'C07': 500000 / 24000, 'C08': 500000 / 24000, 'C09': 40000 / 1500 * 0.88, 'C10': 3000000 / 160000, 'C11': 3000000 / 160000,
         'C12': 200000 / 9000, 'C13': 400000 / 24000, 'C14': 300000 / 16000, 'C15': 20, 'C16': 400000 / 24000, 'C17': 20,
         'C18': 20, 'C19': 4000 / 256, 'C20': 20}
FIXED = {'C09': lambda k: k.startswith('family:') or k in ('cases_via_parse_sv', 'cases_via_parse_sv_str'),
         'C13': lambda k: k == 'sweep_cases',
         'C17': lambda k: k.startswith('catalogue_')}
fp = '/verif/tools/floors.json'
f = json.load(open(fp))
for p, r in RATIO.items():
    q = f[p]['quick']
    t = {}
    for k, v in q.items():
        fixed = FIXED.get(p, lambda k: False)(k)
        t[k] = v if fixed else int(v * r * 0.5)
    f[p]['thorough'] = t
json.dump(f, open(fp, 'w'), indent=1, sort_keys=True)
print('thorough floors derived for', len(RATIO), 'properties')
