#!/bin/bash
# confirm_seeded.sh <worktree> <example-name>: with the change: tests pass + demo fails; without: demo passes
set -u
WT=$1; EX=$2
cd $WT || exit 2
echo "== tests with change"; cargo test --workspace --no-fail-fast --offline 2>&1 | grep -E "^test result" | awk '{p+=$4; f+=$6} END {print "passed",p,"failed",f}'
echo "== demo with change"; cargo run --offline --example $EX >/tmp/demo_with.txt 2>&1; echo "exit=$?"; tail -3 /tmp/demo_with.txt
git diff -- . ':!SEEDED' ':!sv-parser/examples' > /tmp/seeded_patch.diff
git apply -R /tmp/seeded_patch.diff || exit 3
echo "== demo without change"; cargo run --offline --example $EX >/tmp/demo_without.txt 2>&1; echo "exit=$?"; tail -3 /tmp/demo_without.txt
git apply /tmp/seeded_patch.diff
