"""Per-property configuration of the driver: floors, evidence rule, level text."""

PROPS = {
    'C01': {
        'title': 'leaves tile the preprocessed text',
        'rule': 'one case = one source text (corpus program raw / re-laid-out / with kept directives / concatenated / token-mutated, '
                'G-SV program, library map) in strict or incomplete mode (also truncated / junk-suffixed), through preprocess_str+parse_*_pp '
                'or the raw parser; non-trivial = accepted, all tiling and get_str laws evaluated; distinct by hash of (text, grammar, mode)',
        'evaluations_key': 'inputs',
        'floors': {'quick': {'trees': 1500, 'leaves': 200000, 'nodes_get_str_checked': 400000, 'trees_incomplete': 300, 'prefix_trees': 100,
                             'trees_raw': 200, 'trees_with_non_ascii': 200, 'trees_with_kept_directives': 150, 'kind:lib': 100},
                   'thorough': {'trees': 50000, 'leaves': 6000000, 'trees_incomplete': 9000, 'prefix_trees': 3000, 'trees_raw': 6000}},
        'technique': 'runtime monitor: structural invariant (leaf tiling, line numbers, get_str slices) walked over every tree returned under generated, re-laid-out and mutated workloads; Miri/valgrind legs in thorough',
        'level_text': 'Every tree returned by the real parser on thousands of generated, re-laid-out, concatenated, truncated and junk-suffixed sources (both grammars, strict and incomplete, two-step and raw entry) is walked by a monitor that asserts the tiling, line and get_str laws; held-on-observed, not a proof.',
        'level_note': 'Trusts the monitor (mon_tile.rs, ~150 lines) and that generated workloads reach the relevant productions (node kinds seen are listed in the evidence).',
        'design_ref': '5 / C01',
    },
    'C02': {
        'title': 'Annex A sentences accepted and classified',
        'rule': 'one case = one G-SV program (1-3 design elements, adversarial identifiers, random layout) with the fact multiset the generator '
                'expects; non-trivial = accepted and fact multiset + token/leaf check evaluated; distinct by hash of text',
        'evaluations_key': 'programs',
        'floors': {'quick': {'accepted': 2000, 'expected_facts': 20000, 'tokens_leaf_checked': 80000, 'fact_sets_equal': 1500},
                   'thorough': {'accepted': 55000, 'expected_facts': 500000}},
        'technique': 'runtime monitor with executable reference: grammar-directed sentence generator whose expected (node kind, identifier) facts are compared with facts collected from the returned tree; token spans known by construction checked against leaves',
        'level_text': 'A sentence generator for the covered Annex A subset emits token lists with known byte spans and the facts each construct must contribute; the real parser is run on every sentence and a monitor compares acceptance, the fact multiset and identifier/keyword leaves. Sampled, size-bounded.',
        'level_note': 'Trusts the generator table (DESIGN Appendix A) — each admissible-set widening is an Annex A ambiguity documented there; K6 is attributed only when the K6 model reproduces the observed multiset exactly.',
        'design_ref': '5 / C02',
    },
    'C16': {
        'title': 'traversal laws',
        'rule': 'one case = one source text of the shared tree workload; non-trivial = accepted tree on which event balance, Enter==Iter, '
                'sub-iteration slices, the Debug field-order witness, unwrap_node!/unwrap_locate! and get_str_trim were all evaluated; distinct by hash of (text, mode)',
        'evaluations_key': 'inputs',
        'floors': {'quick': {'trees': 2000, 'pp_trees': 600, 'sub_iterations_checked': 200000, 'debug_witness_items': 800000, 'unwrap_checks': 150000,
                             'get_str_trim_checks': 120000},
                   'thorough': {'trees': 50000, 'pp_trees': 15000}},
        'technique': 'runtime monitor: stack-discipline checker over the event stream with pointer identity, slice comparison of sub-iterations, derived-Debug rendering as independent witness of field order',
        'level_text': 'Every tree (syntax trees of both grammars and the preprocessor\'s own pp_parser trees) produced under the shared workload is traversed by a monitor that checks the traversal laws against each other and against the derived Debug rendering, which does not use the traversal code. Held on observed trees.',
        'level_note': 'Trusts mon_iter.rs; node identity is by address (self-tested at start-up); the Debug witness covers struct-kind nodes and leaves (generic wrappers are transparent in both views).',
        'design_ref': '5 / C16',
    },
}
