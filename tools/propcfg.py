"""Per-property configuration of the driver: floors, evidence rule, level text."""

PROPS = {
    'C01': {
        'title': 'leaves tile the preprocessed text',
        'rule': 'one case = one source text (corpus program raw / re-laid-out / with kept directives / concatenated / token-mutated, '
                'G-SV program, library map) in strict or incomplete mode (also truncated / junk-suffixed), through preprocess_str+parse_*_pp '
                'or the raw parser; non-trivial = accepted, all tiling and get_str laws evaluated; distinct by hash of (text, grammar, mode)',
        'evaluations_key': 'inputs',
        'floors': {'quick': {'trees': 1500, 'leaves': 200000, 'nodes_get_str_checked': 400000, 'trees_incomplete': 300, 'prefix_trees': 100,
                             'trees_raw': 200, 'trees_with_non_ascii': 200, 'trees_with_kept_directives': 150, 'kind:lib': 100},
                   'thorough': {'trees': 50000, 'leaves': 6000000, 'trees_incomplete': 9000, 'prefix_trees': 3000, 'trees_raw': 6000}},
        'technique': 'runtime monitor: structural invariant (leaf tiling, line numbers, get_str slices) walked over every tree returned under generated, re-laid-out and mutated workloads; Miri/valgrind legs in thorough',
        'level_text': 'Every tree returned by the real parser on thousands of generated, re-laid-out, concatenated, truncated and junk-suffixed sources (both grammars, strict and incomplete, two-step and raw entry) is walked by a monitor that asserts the tiling, line and get_str laws; held-on-observed, not a proof.',
        'level_note': 'Trusts the monitor (mon_tile.rs, ~150 lines) and that generated workloads reach the relevant productions (node kinds seen are listed in the evidence).',
        'design_ref': '5 / C01',
        'sanitizer_legs': [
            {'name': 'miri', 'runner': 'miri', 'tier': 'tiny', 'cases': 64, 'workers': 16, 'watchdog_s': 3000},
            {'name': 'valgrind', 'runner': 'valgrind', 'tier': 'quick', 'cases': 1600, 'workers': 16, 'watchdog_s': 3000},
        ],
    },
    'C02': {
        'title': 'Annex A sentences accepted and classified',
        'rule': 'one case = one G-SV program (1-3 design elements, adversarial identifiers, random layout) with the fact multiset the generator '
                'expects; non-trivial = accepted and fact multiset + token/leaf check evaluated; distinct by hash of text',
        'evaluations_key': 'programs',
        'floors': {'quick': {'accepted': 2000, 'programs_behind_directives': 100, 'expected_facts': 20000, 'tokens_leaf_checked': 80000, 'fact_sets_equal': 1500},
                   'thorough': {'accepted': 55000, 'expected_facts': 500000}},
        'technique': 'runtime monitor with executable reference: grammar-directed sentence generator whose expected (node kind, identifier) facts are compared with facts collected from the returned tree; token spans known by construction checked against leaves',
        'level_text': 'A sentence generator for the covered Annex A subset emits token lists with known byte spans and the facts each construct must contribute; the real parser is run on every sentence and a monitor compares acceptance, the fact multiset and identifier/keyword leaves. Sampled, size-bounded.',
        'level_note': 'Trusts the generator table (DESIGN Appendix A) — each admissible-set widening is an Annex A ambiguity documented there; K6 is attributed only when the K6 model reproduces the observed multiset exactly.',
        'design_ref': '5 / C02',
    },
    'C16': {
        'title': 'traversal laws',
        'rule': 'one case = one source text of the shared tree workload; non-trivial = accepted tree on which event balance, Enter==Iter, '
                'sub-iteration slices, the Debug field-order witness, unwrap_node!/unwrap_locate! and get_str_trim were all evaluated; distinct by hash of (text, mode)',
        'evaluations_key': 'inputs',
        'floors': {'quick': {'trees': 2000, 'advanced_event_views': 20000, 'pp_trees': 600, 'sub_iterations_checked': 200000, 'debug_witness_items': 800000, 'unwrap_checks': 150000,
                             'get_str_trim_checks': 120000},
                   'thorough': {'trees': 50000, 'pp_trees': 15000}},
        'technique': 'runtime monitor: stack-discipline checker over the event stream with pointer identity, slice comparison of sub-iterations, derived-Debug rendering as independent witness of field order',
        'level_text': 'Every tree (syntax trees of both grammars and the preprocessor\'s own pp_parser trees) produced under the shared workload is traversed by a monitor that checks the traversal laws against each other and against the derived Debug rendering, which does not use the traversal code. Held on observed trees.',
        'level_note': 'Trusts mon_iter.rs; node identity is by address (self-tested at start-up); the Debug witness covers struct-kind nodes and leaves (generic wrappers are transparent in both views).',
        'design_ref': '5 / C16',
    },
    'C07': {
        'title': 'history independence',
        'rule': 'one case = a history of 1-8 (thorough 1-12) calls on one thread through 11 entry points (accepted, rejected, state-polluting '
                'inputs; raw-parser calls refill one buffer so texts share their address) followed by a probe that is re-run alone on a fresh OS thread; '
                'non-trivial = every case (the probe always runs on a thread with residue); one history in twelve repeats a failing call 3-300 times; distinct by hash of (history texts, probe, entry)',
        'evaluations_key': 'histories',
        'floors': {'quick': {'histories': 3000, 'probes_after_calls_with_other_include_paths': 100, 'probes_editing_the_buffer_in_place': 100, 'probes_on_dirty_state': 2500, 'probes_with_version_residue': 200, 'probes_at_reused_address': 400, 'histories_with_a_repeated_failing_call': 500},
                   'thorough': {'histories': 90000, 'probes_with_version_residue': 5000}},
        'technique': 'runtime monitor: differential re-execution of the probe call on a fresh thread (fresh thread-locals) against the call made after a recorded history; hook snapshot records the residue state the probe ran under',
        'level_text': 'Thousands of random call histories that leave real residue in the thread-local parser state (observed through the snapshot hook and listed in the evidence) are followed by a probe whose canonical result is compared with the same call on a fresh thread.',
        'level_note': 'Only residue that the sampled histories produce is exercised; equality is on canonical results (text, defines, origins / exact tree skeleton / error Debug).',
        'design_ref': '5 / C07',
    },
    'C08': {
        'title': 'totality',
        'rule': 'one case = a batch of 12 hostile inputs (token soups, byte soups, byte/token-mutated corpus and G-SV programs, prefixes, deep nesting, library soups) '
                'with random defines / include paths / flags through preprocess_str, parse_sv_str, parse_lib_str, then on Ok: iteration, events, Display, Debug, '
                'get_str, get_str_trim, Locate::try_from, origin(); 1 case in 16 is a file-fault case (non-UTF-8 file, directory, missing file reached directly or through 1-2 include levels); '
                'distinct by hash of input text',
        'evaluations_key': 'calls',
        'dead_worker_is_violation': True,
        'floors': {'quick': {'calls': 150000, 'trees': 20000, 'file_fault_errors_checked': 400, 'nodes_get_str_try_from': 2000000},
                   'thorough': {'calls': 9000000, 'trees': 1000000, 'file_fault_errors_checked': 20000}},
        'technique': 'runtime monitor: catch_unwind + process supervision around every public entry point under fuzzed inputs in a debug-assertions+overflow-checks build; valgrind/Miri legs in thorough',
        'level_text': 'Hostile inputs are driven through every public entry point in the strictest build profile; a caught panic, a dead worker or a mis-shaped file-fault error is a violation with the input as witness.',
        'level_note': 'Stack exhaustion by nesting is outside the claim (cases run on 1 GiB stacks, nesting <= 60).',
        'design_ref': '5 / C08',
        'sanitizer_legs': [
            {'name': 'miri', 'runner': 'miri', 'tier': 'tiny', 'cases': 48, 'workers': 16, 'watchdog_s': 3000},
            {'name': 'valgrind', 'runner': 'valgrind', 'tier': 'quick', 'cases': 160, 'workers': 16, 'watchdog_s': 3000},
        ],
    },
    'C15': {
        'title': 'incomplete mode',
        'rule': 'one case = one source (shared tree workload plus token/byte-mutated and valid+broken concatenations); incomplete mode must not return Error::Parse, '
                'must tile a prefix that strict parsing accepts as the same tree, must equal strict mode where strict accepts, and must ignore a junk suffix; junk tails are unlexable or lexable but unparsable (colon without label, closers, stray end keywords); distinct by hash of (text, grammar)',
        'evaluations_key': 'inputs',
        'floors': {'quick': {'incomplete_trees': 3000, 'inputs_with_keywords_directive_in_dead_branch': 100, 'proper_prefix_trees': 1000, 'strict_accepted': 1200, 'junk_suffix_checked': 1200, 'junk_lexable': 500, 'prefix_reparsed': 3000},
                   'thorough': {'incomplete_trees': 80000, 'proper_prefix_trees': 25000}},
        'technique': 'runtime monitor: metamorphic/differential comparison of incomplete-mode and strict-mode executions (exact and layout-free tree skeletons) plus the tiling monitor in prefix mode',
        'level_text': 'For every generated or mutated input both modes of the real parser are run and compared; the covered prefix is re-parsed strictly to show it consists of complete descriptions.',
        'level_note': 'Differences that vanish with an unbounded memo are attributed to finding K3 (listed under C15 as well).',
        'design_ref': '5 / C15',
    },
    'C17': {
        'title': 'memo transparency',
        'rule': 'one case = one preprocessed text parsed by the raw parser at capacities unbounded, default, 4096, 256, 128 and (size permitting) 64..1; '
                'non-trivial = at least one run evicted entries; distinct by hash of (text, mode); the first 3000 case slots are the fixed catalogue '
                '(every vendored corpus program + the memo-stress family at fixed sizes, capacities >= 8), whose known capacity dependences are listed input by input',
        'evaluations_key': 'runs',
        'floors': {'quick': {'runs': 9000, 'catalogue_inputs': 2000, 'catalogue_runs_with_evictions': 5000, 'in_place_edits_at_same_address': 100, 'runs_with_evictions': 5000, 'runs_at_default': 1500, 'runs_at_16': 600, 'runs_at_1': 50},
                   'thorough': {'runs': 200000, 'runs_with_evictions': 100000}},
        'technique': 'runtime monitor: differential execution of the real parser under memo capacities set through the storage hook; hook counters (evictions, guard-mismatched hits, version-stack events) classify a mismatch against the known causes',
        'level_text': 'The same text is parsed at up to twelve memo capacities through the hook-configurable table and every result is compared with the unbounded one; eviction counts in the evidence show the sweep really evicted.',
        'level_note': 'With hooks on the table is created by the hook module (default 1024), so an edit of the literal in storage!() is not seen (default_capacity_source: hook). On randomly generated inputs K3/K4 are attributed by cause (see known_findings.json), anything else is a violation; on the fixed catalogue the known instances are listed input by input (CAT:<hash>:<capacity>) and any other capacity dependence is a violation whatever its cause.',
        'design_ref': '5 / C17',
        'coverage_extra': {'default_capacity_source': 'hook'},
    },
    'C19': {
        'title': 'thread isolation',
        'rule': 'one case = one concurrent round: 2/4/16/64 threads released on a barrier, each making 3-12 calls (state-sensitive inputs, the same input on several threads, polluting inputs, corpus programs) '
                'with injected yields at every mutation of thread-local parser state; every result is compared with the same call run alone; distinct = distinct observed interleaving (hash of the merged hook-event order)',
        'evaluations_key': 'concurrent_calls',
        'floors': {'quick': {'rounds': 90, 'rounds_with_first_use_under_contention': 30, 'rounds_with_references_taken_afterwards': 30, 'concurrent_calls': 5000, 'overlapping_call_pairs': 20000, 'context_switches_between_hook_events': 20000, 'injected_yields': 10000},
                   'thorough': {'rounds': 2000, 'concurrent_calls': 100000}},
        'technique': 'runtime monitor: concurrent stress with yields injected through the state hooks, results checked against sequential fresh-thread references; observed interleavings measured from globally sequenced hook events; TSan/Miri legs in thorough',
        'level_text': 'Real threads run the real library concurrently under injected scheduling noise; every result is compared with its sequential reference and the evidence reports how much true overlap and how many context switches between state mutations were observed.',
        'level_note': 'Schedules are sampled, not enumerated; a shared cache that does not collide on the sampled inputs would pass.',
        'design_ref': '5 / C19',
        'sanitizer_legs': [
            {'name': 'tsan', 'runner': 'tsan', 'tier': 'quick', 'cases': 32, 'workers': 8, 'watchdog_s': 3000},
            {'name': 'miri', 'runner': 'miri', 'tier': 'tiny', 'cases': 4, 'workers': 4, 'watchdog_s': 3000},
        ],
    },
    'C04': {
        'title': 'conditional compilation',
        'rule': 'one case = one G-PP program (nesting <= 5, `elsif chains, `define/`undef/`undefineall between and inside branches, dead branches with undefined usages, '
                'strings/comments containing `endif text, predefined and SV_COV names, random initial define table, line-per-directive or inline layout); '
                'the reference semantics is evaluated on the abstract program; non-trivial = contains a conditional or usage and was compared in full (tokens, dead payload, table, error); distinct by hash of (source, initial table)',
        'evaluations_key': 'programs',
        'floors': {'quick': {'programs': 150000, 'conditionals': 500000, 'elsif_branches': 500000, 'dead_payload_tokens': 500000, 'agree_with_reference': 100000, 'expected_errors': 5000},
                   'thorough': {'programs': 3500000, 'conditionals': 12000000}},
        'technique': 'runtime monitor with executable reference model: unique payload tokens make surviving text attributable; the reference evaluates branch selection and define-table evolution on the abstract program and is compared token-for-token with the real preprocessor output',
        'level_text': 'Thousands of generated conditional-compilation programs are run through the real preprocessor; a ~150-line reference semantics evaluated on the abstract program predicts the token sequence, the dead payload, the final table and the error, and a monitor compares them.',
        'level_note': 'Trusts the reference semantics (gen_pp.rs) and lexer.rs (used on outputs only). K2 is attributed only when the reference with the K2 switch reproduces the observation exactly.',
        'design_ref': '5 / C04',
    },
    'C05': {
        'title': 'macro expansion',
        'rule': 'one case = one G-PP program in the macro profile (0-3 formals with/without defaults, actuals with nested brackets/strings/commas/usages, bodies with continuation lines, '
                'pasting, stringification, plain strings naming formals, nested usages, redefinition between uses, the three misuse shapes); non-trivial = contains a usage and was compared in full; one case in twelve is a usage between two plain tokens with known white-space/comment runs on either side (bytes around the expansion compared); distinct by hash of source',
        'evaluations_key': 'programs',
        'floors': {'quick': {'programs': 150000, 'usages': 40000, 'function_like_defines': 40000, 'agree_with_reference': 100000, 'expected_errors': 5000, 'ws_usages_checked': 15000},
                   'thorough': {'programs': 3500000, 'usages': 900000}},
        'technique': 'runtime monitor with executable reference model: reference expander on abstract macro bodies (substitution, defaults, paste, stringify, nested usage with the table at the point of use) compared token-wise with the real output; error variant and payload compared exactly',
        'level_text': 'Generated define/usage programs are expanded both by the real preprocessor and by a reference expander that works on the abstract macro bodies; outputs are compared token-wise and errors by variant and payload.',
        'level_note': 'The reference comparison is token-level; white space and comments around a usage are compared byte for byte in a family of its own (usage between two plain tokens, known runs on either side). Shapes the statement is silent about (more actuals than formals) are not generated.',
        'design_ref': '5 / C05',
    },
    'C06': {
        'title': 'identity on directive-free text; fixed point',
        'rule': 'one case = either a directive-free lexical soup over ~75 fragment kinds / a directive-free corpus program (byte identity, identity origin vector, rejection only with one of the three permitted faults) '
                'or a G-PP program whose successful output is preprocessed again with the same initial defines (fixed point); non-trivial = identical output with all origins checked, or fixed point reached; distinct by hash of source',
        'evaluations_key': 'cases',
        'floors': {'quick': {'identity_inputs': 60000, 'identical': 35000, 'origin_positions_checked': 3000000, 'rejected_with_permitted_fault': 5000, 'fixed_point_inputs': 20000, 'fixed_point_inputs_strip_comments': 1000, 'fixed_points_with_kept_directives': 8000},
                   'thorough': {'identity_inputs': 1500000, 'fixed_point_inputs': 500000}},
        'technique': 'runtime monitor: byte-for-byte identity and identity-origin oracle on generated directive-free text, idempotence (metamorphic) oracle on outputs of successful runs; exact executable model of finding K1 for attribution',
        'level_text': 'The real preprocessor is run on tens of thousands of directive-free soups and its output and origin map are compared with the input itself; outputs of successful runs are fed back and must reproduce themselves.',
        'level_note': 'The scanner deciding whether a text has one of the three permitted faults is lexer.rs; outputs that contain a literal followed by trivia (K1 trigger) are skipped in the fixed-point sub-workload and counted.',
        'design_ref': '5 / C06',
    },
    'C18': {
        'title': 'strip_comments',
        'rule': 'one case = one G-PP program rendered with comments as frequent only-separators, or a lexical soup, preprocessed with and without strip_comments; '
                'non-trivial = both succeed, the plain output contains comments, token sequences / tables compared and the stripped output scanned; distinct by hash of source',
        'evaluations_key': 'inputs',
        'floors': {'quick': {'inputs': 90000, 'both_ok': 70000, 'comments_in_plain_output': 60000, 'both_error': 5000},
                   'thorough': {'inputs': 2000000, 'both_ok': 1500000}},
        'technique': 'runtime monitor: differential execution of the real preprocessor with the flag on and off (token sequences via lexer.rs, define tables with origins, error Debug) plus a string-aware scan of the stripped output',
        'level_text': 'Every generated input is preprocessed twice and the two runs are compared token-wise, table-wise and error-wise; the stripped output is scanned for comments outside kept `define lines.',
        'level_note': 'Token comparison uses lexer.rs on both outputs; a comment that survives behind a string literal / escaped identifier is attributed to finding K1.',
        'design_ref': '5 / C18',
    },
    'C09': {
        'title': 'bounded recursion',
        'rule': 'one case = one constructed input of a family (macro chain depth 1..80, include chain 1..80 levels, macro cycles of length 1..8, include cycles 1..5, '
                'include x macro mixes, three macro->include cycles; then random parameters up to 130) with the expectation known by construction; the depth sweep 1..80 of both chain families is enumerated completely in every run; one case in three follows 1-60 failed calls on the same thread; '
                'distinct by (family, parameter)',
        'evaluations_key': 'cases_run',
        'dead_worker_is_violation': True,
        'floors': {'quick': {'cases_run': 400, 'cases_after_failed_calls': 200, 'cases_via_parse_sv': 20, 'cases_via_parse_sv_str': 20, 'family:macro-chain': 80, 'family:include-chain': 80, 'family:macro-cycle': 8, 'family:include-cycle': 5, 'family:mixed-chain': 32,
                             'family:macro-include-cycle': 6, 'legal_depths_ok': 150, 'limits_reported': 80},
                   'thorough': {'cases_run': 6000}},
        'technique': 'runtime monitor over constructed recursion families: expected outcome by construction, a logical frame bound injected through the preprocess_str entry hook turns runaway recursion into a caught, replayable violation; process supervision catches stack overflow',
        'level_text': 'Chains and cycles of every depth around the limit are constructed and run through the real preprocessor; the entry hook counts nested preprocess_str frames and aborts a run that exceeds (64+2)^2 frames, so non-termination is decided on logical steps, not wall clock.',
        'level_note': 'The frame bound is a monitor-side definition of "does not hang"; a watchdog expiry would be inconclusive.',
        'design_ref': '5 / C09',
        'coverage_extra': {'exhaustive_subspace': 'macro-chain depth 1..80 and include-chain levels 1..80 enumerated completely'},
    },
    'C10': {
        'title': '`include',
        'rule': 'one case = one of four sub-workloads in real directory trees under the worker temp dir: (a) search rule: the same file name present in any subset of {cwd, 3 include dirs} with distinct payloads, random include-path order/subset, three naming styles, absolute paths, sub-directories, worker chdir()s into the tree; '
                '(b) random include graphs (<= 5 files, nested, same file twice, macro-named) with defines flowing in and out, compared with the G-PP reference semantics; (c) same-line rule with 13 kinds of neighbour before/after; (d) ignore_include with non-existent targets; the search-rule family makes a second call on the same thread after the spliced copy was rewritten in place or removed; distinct by hash of sources + placement',
        'evaluations_key': 'cases',
        'floors': {'quick': {'search_rule_cases': 6000, 'search_rule_agree': 6000, 'search_rule_second_call_after_rewrite': 1000, 'search_rule_second_call_after_removal': 500, 'missing_file_errors': 1000, 'include_graph_cases': 8000, 'includes': 15000, 'agree_with_reference': 7000,
                             'same_line_cases': 4000, 'include_line_errors': 1200, 'ignore_include_cases': 2000},
                   'thorough': {'search_rule_cases': 150000, 'include_graph_cases': 200000}},
        'technique': 'runtime monitor with executable reference: unique payload per file copy identifies which file was spliced; reference semantics over include graphs; constructed same-line and ignore_include cases with expectation by construction; real files, real chdir',
        'level_text': 'Real directory trees are built per case and the real preprocessor is run from inside them; which copy was spliced is read off unique payload tokens and compared with the search rule, define flow is compared with the reference semantics, and the same-line / ignore_include rules with expectations known by construction.',
        'level_note': 'Search-rule cases chdir() the worker process (cases of one worker run one at a time).',
        'design_ref': '5 / C10',
    },
    'C11': {
        'title': 'define table exactness and cross-file threading',
        'rule': 'one case = (a) a G-PP program whose returned table (names, formals, defaults, body text, caller-supplied entries, `undefineall) is compared entry by entry with the reference table, or '
                '(b) 2-3 generated units, each ending in `;` + newline outside conditionals, preprocessed one after the other with the table fed forward, against one run over the concatenation (byte-equal text, equal final table without source positions, equal error); '
                'non-trivial = comparison completed with a non-empty table; distinct by hash of sources',
        'evaluations_key': 'cases',
        'floors': {'quick': {'threading_cases': 60000, 'both_ok': 50000, 'table_entries_compared': 60000, 'table_exactness_cases': 30000, 'both_error': 3000},
                   'thorough': {'threading_cases': 1500000}},
        'technique': 'runtime monitor: reference table from the G-PP semantics; metamorphic comparison of sequential-with-threaded-table execution against single-unit execution of the concatenation',
        'level_text': 'The table returned by the real preprocessor is compared with the table the reference semantics computes on the abstract program, and feeding it into a second (and third) run is compared byte for byte with preprocessing the concatenation.',
        'level_note': 'Generator constraints exclude the cases where single-unit and multi-unit processing legitimately differ (`__LINE__ in later units, SV_COV names, open `begin_keywords); listed in DESIGN C11.',
        'design_ref': '5 / C11',
    },
    'C20': {
        'title': 'entry points agree',
        'rule': 'one case = one file written to the worker directory (tree workload, include + comment + macro-from-include, G-PP program, rejected program, file faults, library map, junk suffix) run through all members of the parse family for the 4 (ignore_include, allow_incomplete) values and through preprocess / preprocess_str for the 4 (strip_comments, ignore_include) values: 16 comparisons of canonical results per case; one input in eight with a hostile first/last byte sequence (BOM, NUL, Ctrl-Z, CR, no final newline); distinct by hash of (contents, kind)',
        'evaluations_key': 'comparisons',
        'floors': {'quick': {'inputs': 11000, 'inputs_rewritten_in_place': 500, 'inputs_with_edge_prefix': 300, 'inputs_with_edge_suffix': 300, 'comparisons': 170000, 'accepted_configs': 10000, 'flag_sensitive_inputs': 1500, 'kind:file-fault': 800, 'kind:lib': 800},
                   'thorough': {'inputs': 280000}},
        'technique': 'runtime monitor: differential execution of the entry points that the property says must agree, on the same file with the same flags, comparing exact tree skeleton + origins + define table (with origins) or the error Debug',
        'level_text': 'Each generated file is pushed through every member of the entry-point family under every flag combination and the canonical results are compared; inputs are chosen so that swapped or dropped flags change at least one result.',
        'level_note': 'Equality of trees is by exact skeleton hash (node kinds + Locate of every node), per-leaf origin hash and define table with origins.',
        'design_ref': '5 / C20',
    },
    'C12': {
        'title': 'trivia neutrality',
        'rule': 'one case = a pair (original, re-laid-out) with identical token sequences: G-SV programs (plain layout vs random runs of blanks, tabs, form feeds, CR/LF, both comment kinds, 12 neutral directives, `define/`undef pieces, `resetall between descriptions), token-mutated G-SV programs (mostly rejected) and corpus programs re-laid-out through the lexer; '
                'each pair is compared on the raw parser and through parse_sv_str (acceptance and layout-free skeleton); distinct by hash of the pair',
        'evaluations_key': 'comparisons',
        'floors': {'quick': {'pairs': 5000, 'pairs_after_a_rejected_call': 200, 'comparisons': 10000, 'both_accepted': 3000, 'both_rejected': 2000, 'pairs_with_form_feed': 2500, 'pairs_with_directives': 4000},
                   'thorough': {'pairs': 120000}},
        'technique': 'runtime monitor: metamorphic comparison of two executions of the real parser on sources that differ only in inter-token trivia, using layout-free tree skeletons',
        'level_text': 'For thousands of accepted and rejected programs every inter-token white-space run is replaced by a random non-empty trivia run (boundary rules in DESIGN C12 keep token boundaries intact) and acceptance plus the layout-free skeleton of both executions are compared.',
        'level_note': 'Differences that vanish with an unbounded memo are attributed to finding K3.',
        'design_ref': '5 / C12',
    },
    'C13': {
        'title': 'reserved words are never identifiers',
        'rule': 'one case = (i) a batch of the exhaustive sweep all 248 words x 8 version specifiers x 3 name positions (enumerated completely in every run), or (ii) a program of 1-3 Verilog-1995 modules inside nested / sequential `begin_keywords regions, preceded by kept directives incl. `resetall, with one identifier at a name position replaced by a word reserved in the set in force (must be rejected) or reserved only later (must be accepted as that simple identifier), or '
                '(iii) the tree monitor (version stack replayed over tree order, every simple identifier looked up in the vendored tables) on accepted trees of the shared workload and of every base program; plus twin programs (the same word at a name position on both sides of a keyword-set boundary); distinct by hash of the mutant',
        'evaluations_key': 'cases',
        'floors': {'quick': {'sweep_cases': 5952, 'region_programs': 4500, 'mutation_pairs': 4000, 'mutation_pairs_after_an_open_region': 200, 'reserved_word_rejected': 2500, 'later_word_accepted_as_identifier': 800, 'identifiers_checked': 150000, 'trees_scanned': 1000, 'twin_second_side_rejected': 500},
                   'thorough': {'sweep_cases': 5952, 'mutation_pairs': 120000}},
        'technique': 'runtime monitor: keyword-set replay over every returned tree against vendored reference tables, plus mutation pairs (reserved / not-yet-reserved word at an identifier position) with expectation from the tables; exhaustive word x version x position sweep',
        'level_text': 'A monitor replays the version stack over each accepted tree and looks every identifier up in reference tables vendored from the pinned keywords.rs (structure cross-checked at load), and mutation pairs put reserved and not-yet-reserved words at name positions under all eight specifiers.',
        'level_note': 'The reference tables are a snapshot (corpus/keywords.txt); an edit of keywords.rs shows as a difference. K5 triples are an exhaustive, committed list.',
        'design_ref': '5 / C13',
        'coverage_extra': {'exhaustive_subspace': '248 words x 8 version specifiers x 3 name positions'},
    },
    'C14': {
        'title': 'rejection and error location',
        'rule': 'one case = one accepted program (G-SV or directive-free corpus program) with up to four single faults: a byte that starts no token (0x01, 0x7f, section sign, currency sign) inserted at a token start, one bracket or block-closing keyword deleted, an unterminated string / block comment or a lone backslash inserted; '
                'with and without include indirection (the tail of complete descriptions, or the whole program, moved into an included file); distinct by hash of (mutant, fault kind, indirection)',
        'evaluations_key': 'mutants',
        'floors': {'quick': {'accepted_programs': 4000, 'mutants': 9000, 'fault:bad-byte': 5000, 'deletions_rejected': 1000, 'locations_ok': 7000, 'faults_inside_included_file': 2000, 'include_length_lines_up_with_directive_end': 400,
                             'fault:unterminated-string': 800, 'fault:lone-backslash': 1000},
                   'thorough': {'mutants': 200000}},
        'technique': 'runtime monitor with fault injection: single lexical/structural faults injected at known offsets into accepted programs; error variant, file and offset of the real parser compared with the injected position',
        'level_text': 'Faults are injected at offsets known by construction into programs the parser accepts, optionally behind an `include, and the error returned by the real entry point is checked for variant, file and an offset not after the fault.',
        'level_note': 'Only fault positions outside compiler directives are used (the programs are directive-free apart from the `include added by the harness).',
        'design_ref': '5 / C14',
    },
    'C03': {
        'title': 'origin map',
        'rule': 'one case = one G-PP program (single file or include graph of up to 4 real files; conditionals, object- and function-like usages incl. empty expansions, kept directives, `__FILE__/`__LINE__, caller-supplied defines) whose expected tokens carry a provenance (copied from file:offset / expansion of macro M defined in file F / synthesised); '
                'every output byte is looked up with origin() and compared with its provenance class, every white-space/comment byte must have an origin, and up to 40 flip experiments per program (one source byte changed, structure kept) identify interventionally which output bytes were copied from that byte; 1 case in 8 compares SyntaxTree::get_origin with origin(offset) on every leaf; distinct by hash of sources',
        'evaluations_key': 'cases',
        'floors': {'quick': {'programs_checked': 12000, 'origin_bytes_compared': 300000, 'positions_checked': 600000, 'copied_token_bytes': 400000, 'expansion_token_bytes': 18000, 'synthesised_token_bytes': 12000, 'gap_bytes': 100000,
                             'flip_experiments': 250000, 'flip_changed_positions': 150000, 'get_origin_leaves': 80000},
                   'thorough': {'programs_checked': 300000, 'flip_experiments': 6000000}},
        'technique': 'runtime monitor: per-position origin lookups compared with provenance computed by the reference semantics, plus interventional flip experiments (perturb one source byte, observe which output bytes change) as ground truth for "copied from"',
        'level_text': 'For every output position of thousands of generated programs the public origin() lookup is compared with the provenance the reference computes on the abstract program, and flip experiments on the real preprocessor establish, independently of the reference, which output bytes a source byte was copied to.',
        'level_note': 'For expansion output the check asks for the definition file and an offset not before the body (the statement asks no more); white space directly after an expansion token may carry either origin.',
        'design_ref': '5 / C03',
    },
}
