#!/usr/bin/env python3
"""Regenerate the seeded-changes table in DESIGN.md (between the SEEDED-TABLE markers) from seeded/*/meta.json."""
import json, glob, re
rows = []
notes = json.load(open('/verif/seeded/NOTES.json'))
for f in sorted(glob.glob('/verif/seeded/*/meta.json')):
    m = json.load(open(f))
    det = ', '.join(m.get('detected_by') or [])
    if not det:
        # no official run against /repo yet: what a run against a scratch copy (HEAD + patch) showed
        sc = [p for p, v in (m.get('scratch_runs') or {}).get('quick', {}).items() if v.get('exit') == 1]
        det = ', '.join('%s quick (scratch copy only)' % p for p in sc) or '**not detected**'
    rows.append('| %s | %s | %s | %s |' % (m['name'], m['breaks_property'], det, notes.get(m['name'], 'caught by the check as it was')))
table = '| seeded change | breaks | caught by | note |\n|---|---|---|---|\n' + '\n'.join(rows) + '\n'
p = '/verif/DESIGN.md'
s = open(p).read()
a = s.index('<!-- SEEDED-TABLE-BEGIN -->'); b = s.index('<!-- SEEDED-TABLE-END -->')
s = s[:a] + '<!-- SEEDED-TABLE-BEGIN -->\n' + table + s[b:]
open(p, 'w').write(s)
print(len(rows), 'rows')
