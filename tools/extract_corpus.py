#!/usr/bin/env python3
"""Extract the raw strings of sv-parser-parser/src/tests.rs into corpus/spec.txt.

Vendored snapshot: run once by hand; checks never run this.
Record format: records separated by 0x1e; fields by 0x1f: parser, expectation (ok|err), text.
"""
import re, sys
src = open('/repo/sv-parser-parser/src/tests.rs').read()
out = []
i = 0
pat = re.compile(r'\btest!\(\s*([a-z_0-9()]+)\s*,\s*')
while True:
    m = pat.search(src, i)
    if not m: break
    j = m.end()
    if src.startswith('r##"', j):
        e = src.index('"##', j + 4)
        text = src[j + 4:e]; k = e + 3
    elif src.startswith('r#"', j):
        e = src.index('"#', j + 3)
        text = src[j + 3:e]; k = e + 2
    elif src[j] == '"':
        e = j + 1
        buf = []
        while src[e] != '"':
            if src[e] == '\\':
                c = src[e + 1]
                buf.append({'n': '\n', 't': '\t', '\\': '\\', '"': '"', 'r': '\r', '0': '\0'}.get(c, c)); e += 2
            else:
                buf.append(src[e]); e += 1
        text = ''.join(buf); k = e + 1
    else:
        i = j; continue
    rest = src[k:k + 40]
    exp = 'ok' if re.match(r'\s*,\s*Ok', rest) else 'err'
    out.append((m.group(1), exp, text))
    i = k
assert all('\x1e' not in t and '\x1f' not in t for _, _, t in out)
open('/verif/corpus/spec.txt', 'w').write('\x1e'.join('\x1f'.join(r) for r in out))
print(len(out), 'records', sum(1 for r in out if r[1] == 'ok'), 'ok')
