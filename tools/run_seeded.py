#!/usr/bin/env python3
"""run_seeded.py <name> [tier] [props...] — apply seeded/<name>/patch.diff to /repo, run the checks, undo.  Records result in meta.json."""
import json,os,subprocess,sys,time
name=sys.argv[1]; tier=sys.argv[2] if len(sys.argv)>2 else 'quick'
d='/verif/seeded/'+name
meta=json.load(open(d+'/meta.json'))
props=sys.argv[3:] or [meta['breaks_property']]
st=subprocess.run(['git','-C','/repo','status','--porcelain','--untracked-files=no'],capture_output=True,text=True).stdout
assert st.strip()=='' , '/repo not clean: '+st
subprocess.run(['git','-C','/repo','apply',d+'/patch.diff'],check=True)
res={}
try:
    for p in props:
        t0=time.time()
        r=subprocess.run(['./check',p,tier],cwd='/verif',capture_output=True,text=True)
        lines=[l for l in r.stdout.splitlines() if l.startswith('VIOLATION') or l.startswith('  [')]
        res[p]={'exit':r.returncode,'violation_lines':lines[:6],'wall_s':round(time.time()-t0)}
        print(p,'exit',r.returncode,'\n'.join(lines[:4]))
finally:
    subprocess.run(['git','-C','/repo','checkout','--','.'],check=True)
meta.setdefault('runs',{})[tier]=res
caught=[p for p,v in res.items() if v['exit']==1]
meta['detected_by']=sorted(set((meta.get('detected_by') or [])+['%s %s'%(p,tier) for p in caught]))
json.dump(meta,open(d+'/meta.json','w'),indent=1)
# evidence files were rewritten by runs on the mutated tree: restore them
subprocess.run(['git','-C','/verif','checkout','--','evidence'],check=False)
