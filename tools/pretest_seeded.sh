#!/bin/bash
# pretest_seeded.sh <patch.diff> <prop> — run a check against a scratch copy of /repo with the patch (does not touch /repo)
set -u
PATCH=$1; PROP=$2
mkdir -p /tmp/mut && rsync -a --delete --exclude target --exclude .git ${SRC:-/repo}/ /tmp/mut/repo/
cd /tmp/mut/repo && patch -p1 -s < $PATCH || exit 3
cd ${VDIR:-/verif} && SVVERIF_NO_FLOORS=1 ./check $PROP quick --repo /tmp/mut/repo 2>&1 | grep -v "^KNOWN" | cut -c1-400 | tail -5
git -C ${VDIR:-/verif} checkout -- evidence 2>/dev/null
