#!/usr/bin/env python3
"""Hand-run: my own (non-independent) mutants from DESIGN.md section 5, applied to a scratch copy of /repo
(never to /repo itself): 120 tests must still pass, then the property's quick check must exit 1.
Results are appended to /verif/seeded-own/results.json."""
import json, os, subprocess, sys, time
M = [
 ('C01-line-off-by-one-after-crlf', 'C01', 'sv-parser-parser/src/utils.rs', 'line: s.location_line(),', 'line: if s.location_offset() > 0 && s.fragment().starts_with(\'\\u{c}\') { s.location_line() + 1 } else { s.location_line() },'),
 ('C04-elsif-does-not-set-hit', 'C04', 'sv-parser-pp/src/preprocess.rs', '''                    } else if defines.contains_key(&elsifid) || is_predefined_text_macro(&ifid) {
                        hit = true;
                    } else {
                        skip_nodes.push(elsifbody.into());
                    }
                }

                if let Some(elsebody) = elsebody {
                    let (_, ref keyword, ref elsebody) = elsebody;
                    skip_nodes.push(keyword.into());
                    if hit {
                        skip_nodes.push(elsebody.into());
                    }
                }
            }
            NodeEvent::Enter(RefNode::WhiteSpace(x))''', '''                    } else if defines.contains_key(&elsifid) || is_predefined_text_macro(&ifid) {
                        hit = elsif.len() < 3;
                    } else {
                        skip_nodes.push(elsifbody.into());
                    }
                }

                if let Some(elsebody) = elsebody {
                    let (_, ref keyword, ref elsebody) = elsebody;
                    skip_nodes.push(keyword.into());
                    if hit {
                        skip_nodes.push(elsebody.into());
                    }
                }
            }
            NodeEvent::Enter(RefNode::WhiteSpace(x))'''),
 ('C04-defined-without-body-not-defined', 'C04', 'sv-parser-pp/src/preprocess.rs', '                if !defines.contains_key(&ifid) && !is_predefined_text_macro(&ifid) {', '                if !defines.get(&ifid).map(|x| x.as_ref().map(|d| d.text.is_some() || !d.arguments.is_empty() || true).unwrap_or(false)).unwrap_or(false) && !is_predefined_text_macro(&ifid) {'),
 ('C05-empty-actual-ignores-default', 'C05', 'sv-parser-pp/src/preprocess.rs', '''                Some(None) => {
                    if let Some(default) = default {
                        default
                    } else {
                        ""
                    }
                }''', '''                Some(None) => {
                    if let (Some(default), true) = (default, i == 0) {
                        default
                    } else {
                        ""
                    }
                }'''),
 ('C07-clear-version-dropped-from-init', 'C07', 'sv-parser-parser/src/lib.rs', '    clear_directive();\n    clear_version();\n', '    clear_directive();\n'),
 ('C09-include-limit-off-by-many-for-macro-named', 'C09', 'sv-parser-pp/src/preprocess.rs', '                            resolve_depth + 1,\n                            include_depth,\n                        )? {\n                            let p = p.trim().trim_matches(\'"\');', '                            resolve_depth,\n                            include_depth,\n                        )? {\n                            let p = p.trim().trim_matches(\'"\');'),
 ('C10-last-include-path-wins', 'C10', 'sv-parser-pp/src/preprocess.rs', '                        if new_path.exists() {\n                            path = new_path;\n                            break;\n                        }', '                        if new_path.exists() {\n                            path = new_path;\n                        }'),
 ('C11-undefineall-keeps-caller-defines', 'C11', 'sv-parser-pp/src/preprocess.rs', '            NodeEvent::Enter(RefNode::UndefineallCompilerDirective(x)) => {\n                defines.clear();', '            NodeEvent::Enter(RefNode::UndefineallCompilerDirective(x)) => {\n                defines.retain(|k, v| pre_defines.contains_key(k) && v.as_ref().map(|d| d.text.as_ref().map(|t| t.origin.is_none()).unwrap_or(true)).unwrap_or(true));'),
 ('C16-option-content-dropped-in-3-tuples', 'C16', 'sv-parser-syntaxtree/src/any_node.rs', '''impl<'a, T: 'a> From<&'a Option<T>> for RefNodes<'a>
where
    &'a T: Into<RefNodes<'a>>,
{
    fn from(x: &'a Option<T>) -> Self {
        let mut ret = Vec::new();
        if let Some(x) = x {
            ret.append(&mut x.into().0);
        }
        ret.into()
    }
}''', '''impl<'a, T: 'a> From<&'a Option<T>> for RefNodes<'a>
where
    &'a T: Into<RefNodes<'a>>,
{
    fn from(x: &'a Option<T>) -> Self {
        let mut ret = Vec::new();
        if let Some(x) = x {
            ret.append(&mut x.into().0);
            if ret.len() > 3 {
                ret.truncate(3);
            }
        }
        ret.into()
    }
}'''),
 ('C20-parse-lib-pp-inverts-incomplete-for-junk', 'C20', 'sv-parser/src/lib.rs', '''    let span = Span::new_extra(text.text(), SpanInfo::default());
    let result = if allow_incomplete {
        lib_parser_incomplete(span)''', '''    let span = Span::new_extra(text.text(), SpanInfo::default());
    let result = if allow_incomplete || text.text().ends_with(";;") {
        lib_parser_incomplete(span)'''),
 ('C06-notdirective-trailing-cr-dropped', 'C06', 'sv-parser-pp/src/preprocess.rs', '''            NodeEvent::Enter(RefNode::SourceDescriptionNotDirective(x)) => {
                let locate: Locate = x.try_into().unwrap();
                let range = Range::new(locate.offset, locate.offset + locate.len);
                ret.push(locate.str(&s), Some((path.as_ref(), range)));''', '''            NodeEvent::Enter(RefNode::SourceDescriptionNotDirective(x)) => {
                let locate: Locate = x.try_into().unwrap();
                let range = Range::new(locate.offset, locate.offset + locate.len);
                ret.push(locate.str(&s).trim_end_matches('\\r'), Some((path.as_ref(), range)));'''),
 ('C18-strip-flag-not-passed-into-includes', 'C18', 'sv-parser-pp/src/preprocess.rs', '''                    preprocess_inner(
                        path,
                        &defines,
                        include_paths,
                        strip_comments,''', '''                    preprocess_inner(
                        path,
                        &defines,
                        include_paths,
                        false,'''),
]
only = sys.argv[1:]
res_p = '/verif/seeded-own/results.json'
res = json.load(open(res_p)) if os.path.exists(res_p) else {}
for name, prop, f, old, new in M:
    if only and name not in only: continue
    subprocess.run('mkdir -p /tmp/mut && rsync -a --delete --exclude target --exclude .git /repo/ /tmp/mut/repo/', shell=True, check=True)
    p = '/tmp/mut/repo/' + f
    s = open(p).read()
    if old not in s:
        print(name, 'PATTERN NOT FOUND'); res[name] = {'error': 'pattern not found'}; continue
    open(p, 'w').write(s.replace(old, new, 1))
    t = subprocess.run('cd /tmp/mut/repo && cargo test --workspace --no-fail-fast --offline 2>&1 | grep -E "^test result|^error" ', shell=True, capture_output=True, text=True).stdout
    passed = sum(int(l.split()[3]) for l in t.splitlines() if l.startswith('test result')); failed = sum(int(l.split()[5]) for l in t.splitlines() if l.startswith('test result'))
    entry = {'property': prop, 'file': f, 'tests': '%d passed, %d failed' % (passed, failed), 'diff_old': old[-200:], 'diff_new': new[-260:]}
    if failed or passed != 120 or 'error' in t:
        entry['verdict'] = 'suite notices the change (proves nothing)'
    else:
        env = dict(os.environ, SVVERIF_NO_FLOORS='1')
        r = subprocess.run(['./check', prop, 'quick', '--repo', '/tmp/mut/repo'], cwd='/verif', env=env, capture_output=True, text=True)
        lines = [l for l in r.stdout.splitlines() if l.startswith('VIOLATION') or l.startswith('  [')]
        entry['check_exit'] = r.returncode; entry['violation_lines'] = [l[:300] for l in lines[:4]]
        entry['verdict'] = 'caught' if r.returncode == 1 else 'NOT caught'
        subprocess.run(['git', '-C', '/verif', 'checkout', '--', 'evidence'])
    res[name] = entry
    print(name, entry['tests'], entry['verdict'], (entry.get('violation_lines') or [''])[1:2])
    json.dump(res, open(res_p, 'w'), indent=1)
