#!/usr/bin/env python3
"""Regenerate /verif/MANIFEST.json from tools/propcfg.py (run by hand after editing the table)."""
import json, os, sys, subprocess
sys.path.insert(0, os.path.dirname(os.path.abspath(__file__)))
import propcfg
V = '/verif'
ids = [json.loads(l)['id'] for l in open(V + '/properties.jsonl')]
hooks = subprocess.run(['git', '-C', '/repo', 'log', '--format=%H %s'], capture_output=True, text=True).stdout.splitlines()
hook_commits = [l.split()[0] for l in hooks if 'verif-hooks' in l]
checks, na = [], []
for i in ids:
    c = propcfg.PROPS.get(i)
    if not c or c.get('disabled'):
        na.append({'property_id': i, 'reason': (c or {}).get('na_reason', 'check not built yet in this session (work in progress; see DESIGN.md section 5 for the planned monitor)')})
        continue
    checks.append({
        'property_id': i,
        'quick_cmd': './check %s quick' % i,
        'thorough_cmd': './check %s thorough' % i,
        'evidence_file': 'evidence/%s.json' % i,
        'replay_cmd_template': './check %s --replay {path}' % i,
        'engine': 'svverif',
        'level_claimed': {'category': 'exploration', 'text': c['level_text'], 'design_ref': 'DESIGN.md section ' + c['design_ref']},
        'level_note': c['level_note'],
        'technique': c['technique'],
    })
m = {
    'version': 1,
    'setup_cmd': 'cd /verif/harness && CARGO_NET_OFFLINE=true cargo build --offline --profile verif --target-dir /verif/target && /verif/target/verif/svverif selftest',
    'hooks': {
        'guard': 'cargo feature verif-hooks (sv-parser, sv-parser-pp, sv-parser-parser); off by default',
        'enable': 'harness/Cargo.toml depends on the /repo crates by path with features = ["verif-hooks"]',
        'baseline_off_cmd': 'cd /repo && cargo test --workspace --no-fail-fast --offline',
        'source_commits': hook_commits,
        'add_only': True,
    },
    'engines': [{'name': 'svverif', 'path': 'harness/', 'serves_properties': [c['property_id'] for c in checks],
                 'kind_free_text': 'Rust harness linked against the working tree of /repo: workload generators, runtime monitors, reference models; driven by ./check (python3)'}],
    'checks': checks,
    'not_applicable': na,
    'notes': 'All checks are runtime monitors over executions of the real code (technique family: runtime monitoring and sanitizers). Exit 0 = held on everything explored, 1 = VIOLATION line, 2 = harness error / observation floors not met (inconclusive). Known findings: known_findings.json.',
}
json.dump(m, open(V + '/MANIFEST.json', 'w'), indent=1)
print(len(checks), 'checks,', len(na), 'not_applicable')
