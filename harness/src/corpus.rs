//! Loader for corpus/spec.txt (vendored snapshot of the raw strings in tests.rs).

use crate::util::Rng;

#[derive(Clone, Debug)]
pub struct Rec {
    pub parser: String,
    pub expect_ok: bool,
    pub text: String,
}

pub struct Corpus {
    pub recs: Vec<Rec>,
    /// candidate whole programs for the SV grammar (raw source_text records + wrapped items)
    pub programs: Vec<String>,
    /// library map sources
    pub libs: Vec<String>,
    /// hand-written supplement (corpus/extra.txt): programs that reach node kinds the repository's own test
    /// strings never produce (extern headers, ANSI UDPs, DPI exports, let, covergroups, sequences, constraints,
    /// specify paths and timing checks, bind, config rules, strengths, patterns ...).  Kept apart from `programs`
    /// so that the C17 catalogue and the memo-configuration baseline stay what they were.
    pub extra: Vec<String>,
}

impl Corpus {
    pub fn load(path: &str) -> Corpus {
        let data = std::fs::read_to_string(path).unwrap_or_else(|e| panic!("cannot read corpus {}: {}", path, e));
        let mut recs = Vec::new();
        for r in data.split('\u{1e}') {
            let f: Vec<&str> = r.splitn(3, '\u{1f}').collect();
            if f.len() == 3 {
                recs.push(Rec { parser: f[0].to_string(), expect_ok: f[1] == "ok", text: f[2].to_string() });
            }
        }
        let mut programs = Vec::new();
        let mut libs = Vec::new();
        for r in &recs {
            match r.parser.as_str() {
                "source_text" | "module_declaration" | "interface_declaration" | "program_declaration" | "package_declaration"
                | "class_declaration" | "udp_declaration" | "config_declaration" | "checker_declaration" => {
                    programs.push(r.text.clone())
                }
                "many1(module_item)" | "module_item" | "many1(package_item)" | "package_item" | "interface_item"
                | "many1(interface_item)" => {
                    programs.push(r.text.clone());
                    programs.push(format!("module __w;\n{}\nendmodule\n", r.text));
                }
                "library_text" => libs.push(r.text.clone()),
                _ => {}
            }
        }
        let xpath = std::path::Path::new(path).with_file_name("extra.txt");
        let xdata = std::fs::read_to_string(&xpath).unwrap_or_else(|e| panic!("cannot read corpus supplement {}: {}", xpath.display(), e));
        let extra: Vec<String> = xdata.split("\n%%%\n").map(|r| format!("{}\n", r.trim_end_matches('\n'))).filter(|r| r.len() > 1).collect();
        assert!(extra.len() >= 20, "corpus supplement truncated: {} records", extra.len());
        Corpus { recs, programs, libs, extra }
    }

    pub fn pick_program<'a>(&'a self, rng: &mut Rng) -> &'a str {
        if rng.chance(1, 6) {
            return &self.extra[rng.below(self.extra.len())];
        }
        &self.programs[rng.below(self.programs.len())]
    }
}

pub const LIB_SAMPLES: &[&str] = &[
    "library rtlLib *.v;\n",
    "library gateLib ./*.vg;\n",
    "library lib1 a.v, b.v -incdir inc1, inc2;\ninclude other.map;\n",
    "include a/b/c.map;\n",
    ";\n",
    "config cfg1;\n design rtlLib.top;\n default liblist rtlLib;\nendconfig\n",
    "config cfg2;\n design rtlLib.top;\n default liblist aLib rtlLib;\n instance top.a2 liblist gateLib;\nendconfig\n",
    "library l1 \"a b.v\";\n",
    "// comment\nlibrary l2 x.v; /* c */ library l3 y.v ;\n",
];
