//! G-LEX: directive-free lexical soups and the K1 model (DESIGN C06).

use crate::lexer::{self, LexFault, K};
use crate::util::Rng;

pub const FRAG: &[&str] = &[
    "ab", "x1", "_y", "9", " ", "  ", "\t", "\n", "\r\n", "\n\n", ";", ",", "(", ")", "[", "]", "+", "-", "*", "/", "/ ", "=", "==", "'", "#", "@", "$d", "\"s\"",
    "\"a b\"", "\"q\\\"r\"", "\"`x\"", "\"é\"", "\"\"", "\"l1\\\nl2\"", "\"// x\"", "\"/* y\"", "\\esc ", "\\e+- \t", "\\x\n", "\\`q ", "/* c */", "/* `d \"q */",
    "/**/", "// c\n", "// \"q `d\n", "//\n", "/* é\n */", "é", "8'hff", "1.5", "a.b", "{", "}", "?", ":", "<=", ">>", "!", "~", "&", "|", "^", "%", ".", "\r",
    "\u{c}", "module", "endmodule", "begin end", "\"\\\\\"", "\"a\\", "\\", "/*", "\"",
];

pub fn soup(r: &mut Rng) -> String {
    let n = r.range(1, 14);
    let mut s = String::new();
    for _ in 0..n {
        let k = r.below(FRAG.len() + 20);
        // the last few fragments are the fault-makers; keep them rare
        let k = if k >= FRAG.len() { r.below(FRAG.len() - 5) } else { k };
        s.push_str(FRAG[k]);
    }
    s
}

/// The three permitted lexical faults, as the preprocessor's coarse grammar sees them.
pub fn fault_of(text: &str) -> Option<LexFault> {
    lexer::lex_mode(text, true).1
}

/// K1 model on directive-free text: a string literal / escaped identifier is emitted together with
/// its trailing trivia, and then the blank-run (space/tab) pieces and the comments of that trivia are
/// emitted a second time (newline runs are not).  Returns None if the text contains a backtick outside
/// strings/comments (not directive-free).
pub fn k1_model(text: &str) -> Option<String> {
    k1_model_mode(text, false)
}

/// `strip`: model of strip_comments = true — comments are replaced by a blank (block) or a newline (line
/// comment that ends in one), except inside the trailing trivia of a literal, which is copied verbatim
/// before its blank runs and (replaced) comments are emitted once more.
pub fn k1_model_mode(text: &str, strip: bool) -> Option<String> {
    let (toks, fault) = lexer::lex_mode(text, true);
    if fault.is_some() {
        return None;
    }
    let b = text.as_bytes();
    let repl = |c: &str| -> &'static str {
        if c.ends_with('\n') {
            "\n"
        } else {
            " "
        }
    };
    let mut out = String::with_capacity(text.len() + 16);
    let mut i = 0;
    while i < toks.len() {
        let t = toks[i];
        if t.k == K::Tick || (t.k == K::Punct && &text[t.s..t.e] == "`") {
            return None;
        }
        i += 1;
        if strip && (t.k == K::LineComment || t.k == K::BlockComment) {
            // a line comment node includes its newline
            let mut e = t.e;
            if t.k == K::LineComment && e < b.len() && b[e] == b'\n' {
                e += 1;
            }
            out.push_str(repl(&text[t.s..e]));
            // skip the newline that belonged to the comment
            if e > t.e {
                // the following Ws token starts with that newline: emit the rest of it
                if i < toks.len() && toks[i].k == K::Ws && toks[i].s == t.e {
                    out.push_str(&text[e..toks[i].e]);
                    i += 1;
                }
            }
            continue;
        }
        out.push_str(&text[t.s..t.e]);
        if t.k == K::Str || t.k == K::EscId {
            // trailing trivia exactly as the implementation's white_space() splits it:
            // space1 -> Space (emitted again), multispace1 -> Newline (not again), comments (again)
            let mut p = t.e;
            let mut again = String::new();
            loop {
                if p >= b.len() {
                    break;
                }
                if b[p] == b' ' || b[p] == b'\t' || b[p] == 0x0c {
                    let q = p;
                    while p < b.len() && (b[p] == b' ' || b[p] == b'\t' || b[p] == 0x0c) {
                        p += 1;
                    }
                    again.push_str(&text[q..p]);
                } else if b[p] == b'\n' || b[p] == b'\r' {
                    while p < b.len() && matches!(b[p], b' ' | b'\t' | b'\n' | b'\r' | 0x0c) {
                        p += 1;
                    }
                } else if text[p..].starts_with("//") {
                    let q = p;
                    while p < b.len() && b[p] != b'\n' {
                        p += 1;
                    }
                    if p < b.len() {
                        p += 1;
                    }
                    again.push_str(if strip { repl(&text[q..p]) } else { &text[q..p] });
                } else if text[p..].starts_with("/*") {
                    let q = p;
                    p = text[p + 2..].find("*/").map(|x| p + 2 + x + 2).unwrap_or(b.len());
                    again.push_str(if strip { repl(&text[q..p]) } else { &text[q..p] });
                } else {
                    break;
                }
            }
            out.push_str(&text[t.e..p]);
            out.push_str(&again);
            // continue after the trivia
            while i < toks.len() && toks[i].s < p {
                i += 1;
            }
        }
    }
    Some(out)
}

/// true when a backtick stands outside strings and comments (the text is not directive-free)
pub fn has_directive(text: &str) -> bool {
    let (toks, _) = lexer::lex_mode(text, true);
    toks.iter().any(|t| t.k == K::Tick || (t.k == K::Punct && &text[t.s..t.e] == "`") || (t.k == K::EscId && false))
}

/// K1 trigger shape: a string literal or escaped identifier followed by trivia or a backtick
pub fn has_k1_shape(text: &str) -> bool {
    let (toks, _) = lexer::lex_mode(text, false);
    for (i, t) in toks.iter().enumerate() {
        if t.k == K::Str || t.k == K::EscId {
            if let Some(n) = toks.get(i + 1) {
                if lexer::is_trivia(n.k) || n.k == K::Tick || &text[n.s..n.e] == "`" {
                    return true;
                }
            }
        }
    }
    false
}
