//! svverif — runtime-monitoring harness for sv-parser.  See /verif/DESIGN.md.

mod api;
mod corpus;
mod ctx;
mod gen_lex;
mod gen_pp;
mod gen_sv;
mod lexer;
mod memo_cfg;
mod mon_facts;
mod mon_hist;
mod mon_iter;
mod mon_kw;
mod mon_pp;
mod mon_tile;
mod mutate;
mod props;
mod util;
mod workload;

use ctx::{Ctx, Tier};
use std::collections::{BTreeMap, HashSet};
use std::path::PathBuf;
use std::sync::Arc;

pub struct Env {
    pub corpus: corpus::Corpus,
    pub structs: HashSet<String>,
    pub repo: String,
    pub verif: String,
}

fn arg<'a>(args: &'a [String], name: &str) -> Option<&'a str> {
    args.iter().position(|a| a == name).and_then(|i| args.get(i + 1)).map(|s| s.as_str())
}

fn big_stack() -> usize {
    std::env::var("SVVERIF_STACK_MB").ok().and_then(|x| x.parse::<usize>().ok()).unwrap_or(1024) << 20
}

fn main() {
    let args: Vec<String> = std::env::args().collect();
    if args.len() < 2 {
        eprintln!("usage: svverif run --prop Cxx --tier quick|thorough|tiny --seed S --shard i --nshards N --out FILE [--case K] [--cases N]");
        std::process::exit(2);
    }
    api::install_panic_hook();
    match args[1].as_str() {
        "run" => run(&args),
        "selftest" => selftest(),
        "probe" => probe(&args),
        "memo1" => props::c17::memo1_main(&args),
        "memo-config" => {
            let verif = arg(&args, "--verif").unwrap_or("/verif").to_string();
            let repo = arg(&args, "--repo").unwrap_or("/repo").to_string();
            let env = Env { corpus: corpus::Corpus::load(&format!("{}/corpus/spec.txt", verif)), structs: Default::default(), repo, verif };
            for n in memo_cfg::observed(&env) {
                println!("{}", n);
            }
        }
        "kinds" => {
            // union of node kinds over all accepted corpus programs (coverage ceiling of the corpus)
            let verif = arg(&args, "--verif").unwrap_or("/verif").to_string();
            let c = corpus::Corpus::load(&format!("{}/corpus/spec.txt", verif));
            let mut kinds = std::collections::BTreeSet::new();
            let mut acc = 0;
            for p in c.programs.iter().chain(c.extra.iter()) {
                if let Ok(Ok((t, _))) = api::parse_str(api::Gram::Sv, p, std::path::Path::new("k.sv"), &api::Cfg::default()) {
                    acc += 1;
                    for n in &t {
                        kinds.insert(n.to_string());
                    }
                }
            }
            eprintln!("{} accepted programs, {} kinds", acc, kinds.len());
            for k in kinds {
                println!("{}", k);
            }
        }
        "k5enum" => props::c13::k5enum(arg(&args, "--verif").unwrap_or("/verif")),
        "memo" => {
            let mut src = String::new();
            use std::io::Read;
            std::io::stdin().read_to_string(&mut src).unwrap();
            for fa in [false, true] {
                for cap in [None, Some(0usize), Some(4096), Some(256), Some(64), Some(16)] {
                    let (r, i) = props::c17::run_at(&src, api::Gram::Sv, args.iter().any(|a| a == "-i"), cap, fa);
                    println!("flag_aware={} cap={:?}: {:?} pushes={} ev={} gm={}", fa, cap, r, i.version_pushes, i.c.evictions, i.c.hits_with_different_guard_bits);
                }
            }
        }
        _ => {
            eprintln!("unknown command {}", args[1]);
            std::process::exit(2);
        }
    }
}

fn selftest() {
    // node_ptr assumption
    let l = sv_parser::Locate { offset: 1, line: 1, len: 1 };
    let n = sv_parser::RefNode::Locate(&l);
    assert_eq!(mon_iter::node_ptr(&n), &l as *const _ as usize, "RefNode layout assumption broken");
    println!("selftest ok");
}

fn run(args: &[String]) {
    let prop = arg(args, "--prop").expect("--prop").to_string();
    let tier = match arg(args, "--tier").unwrap_or("quick") {
        "quick" => Tier::Quick,
        "thorough" => Tier::Thorough,
        "tiny" => Tier::Tiny,
        x => panic!("bad tier {}", x),
    };
    let seed: u64 = arg(args, "--seed").unwrap_or("1").parse().expect("seed");
    let shard: u64 = arg(args, "--shard").unwrap_or("0").parse().expect("shard");
    let nshards: u64 = arg(args, "--nshards").unwrap_or("1").parse().expect("nshards");
    let verif = arg(args, "--verif").unwrap_or("/verif").to_string();
    let repo = arg(args, "--repo").unwrap_or("/repo").to_string();
    let only_case: Option<u64> = arg(args, "--case").map(|x| x.parse().expect("case"));
    let cases_override: Option<u64> = arg(args, "--cases").map(|x| x.parse().expect("cases"));
    let verbose = args.iter().any(|a| a == "-v");
    let out: Box<dyn std::io::Write + Send> = match arg(args, "--out") {
        Some(p) => Box::new(std::io::BufWriter::new(std::fs::File::create(p).expect("create out"))),
        None => Box::new(std::io::stdout()),
    };
    let tmp_root = std::env::var("TMPDIR").unwrap_or_else(|_| "/tmp".into());
    let tmpdir = PathBuf::from(format!("{}/svverif-{}-{}-{}", tmp_root, prop, std::process::id(), shard));
    let _ = std::fs::remove_dir_all(&tmpdir);
    std::fs::create_dir_all(&tmpdir).expect("tmpdir");

    let env = Arc::new(Env {
        corpus: corpus::Corpus::load(&format!("{}/corpus/spec.txt", verif)),
        structs: mon_iter::struct_names(std::path::Path::new(&format!("{}/sv-parser-syntaxtree/src", repo))),
        repo,
        verif,
    });
    {
        let l = sv_parser::Locate { offset: 1, line: 1, len: 1 };
        let n = sv_parser::RefNode::Locate(&l);
        assert_eq!(mon_iter::node_ptr(&n), &l as *const _ as usize, "RefNode layout assumption broken");
    }

    let mut ctx = Ctx {
        prop: prop.clone(),
        tier,
        seed,
        shard,
        nshards,
        case: 0,
        counters: BTreeMap::new(),
        sets: BTreeMap::new(),
        hashes: HashSet::new(),
        samples: Vec::new(),
        max_samples: if shard == 0 { 4 } else { 1 },
        viol_count: BTreeMap::new(),
        tmpdir: tmpdir.clone(),
        out,
        verbose,
        kind_hashes: HashSet::new(),
    };

    let total = cases_override.unwrap_or_else(|| props::cases(&prop, tier));
    let t0 = std::time::Instant::now();
    let budget_s: u64 = std::env::var("SVVERIF_BUDGET_S").ok().and_then(|x| x.parse().ok()).unwrap_or(match tier {
        Tier::Quick => 600,
        Tier::Thorough => 3600,
        Tier::Tiny => 3600,
    });
    let mut idx = shard;
    if let Some(c) = only_case {
        idx = c;
    }
    while idx < total || only_case.is_some() {
        if t0.elapsed().as_secs() > budget_s {
            ctx.inconclusive("worker_watchdog");
            ctx.count("cases_not_run", (total - idx + nshards - 1) / nshards);
            break;
        }
        ctx.begin_case(idx);
        let envc = env.clone();
        let propc = prop.clone();
        let r = std::thread::scope(|s| {
            let h = std::thread::Builder::new()
                .stack_size(big_stack())
                .name(format!("case-{}", idx))
                .spawn_scoped(s, || {
                    let ctxr = &mut ctx;
                    std::panic::catch_unwind(std::panic::AssertUnwindSafe(|| {
                        props::run_case(&propc, &envc, ctxr, idx);
                    }))
                    .map_err(|_| api::last_panic().unwrap_or_default())
                })
                .expect("spawn");
            h.join()
        });
        match r {
            Ok(Ok(())) => {}
            Ok(Err(_)) | Err(_) => {
                let msg = match &r { Ok(Err(m)) => m.clone(), _ => String::from("case thread died") };
                ctx.count("harness_errors", 1);
                let line = util::Obj::new().s("t", "harness_error").n("case", idx).s("msg", &msg).done();
                use std::io::Write;
                let _ = writeln!(ctx.out, "{}", line);
                eprintln!("harness error in case {}: {}", idx, msg);
            }
        }
        ctx.end_case(idx);
        ctx.count("cases", 1);
        if only_case.is_some() {
            break;
        }
        idx += nshards;
    }
    ctx.count("wall_ms", t0.elapsed().as_millis() as u64);
    ctx.write_summary();
    let _ = std::fs::remove_dir_all(&tmpdir);
}

fn probe(args: &[String]) {
    use sv_parser::*;
    let mode = args[2].as_str();
    let src = if args[3] == "@" { let mut s = String::new(); use std::io::Read; std::io::stdin().read_to_string(&mut s).unwrap(); s } else { args[3].clone() };
    let cfg = api::Cfg::default();
    match mode {
        "pp" | "pps" => {
            let cfg = api::Cfg { strip_comments: mode == "pps", ..cfg };
            match api::pp_str(&src, std::path::Path::new("top.sv"), &cfg) {
                Ok(Ok((t, d))) => {
                    println!("TEXT: {:?}", t.text());
                    println!("ORIG: {:?}", api::origins_of(&t).iter().map(|o| o.as_ref().map(|x| x.1 as i64).unwrap_or(-1)).collect::<Vec<_>>());
                    println!("DEFS: {:?}", api::canon_defines(&d, false, true));
                }
                Ok(Err(e)) => println!("ERR: {:?}", e),
                Err(p) => println!("PANIC: {}", p.0),
            }
        }
        _ => {
            let g = if mode.starts_with("lib") { api::Gram::Lib } else { api::Gram::Sv };
            let cfg = api::Cfg { allow_incomplete: mode.ends_with('i'), ..cfg };
            match api::parse_str(g, &src, std::path::Path::new("top.sv"), &cfg) {
                Ok(Ok((t, _))) => {
                    println!("OK");
                    if args.iter().any(|a| a == "--tree") { println!("{}", t); }
                    if args.iter().any(|a| a == "--facts") {
                        let mut full = String::new();
                        for n in &t { if let RefNode::Locate(l) = n { full.push_str(t.get_str(l).unwrap()); } }
                        for f in mon_facts::observe(&t, &full) { println!("  {} {:?}", f.kind, f.name); }
                    }
                }
                Ok(Err(e)) => { println!("ERR: {:?}", e); if let Error::Parse(Some((_, o))) = e { println!("  at: {:?} >>> {:?}", &src[o.saturating_sub(60)..o], &src[o..(o+40).min(src.len())]); } }
                Err(p) => println!("PANIC: {}", p.0),
            }
        }
    }
}
