//! C08 — every entry point is total: Ok or a structured Error, never a panic.

use crate::api::*;
use crate::ctx::{Ctx, Tier};
use crate::mon_tile;
use crate::mutate::{self, HOSTILE};
use crate::util::*;
use crate::Env;
use std::convert::TryFrom;
use std::path::{Path, PathBuf};
use sv_parser::*;

pub fn cases(tier: Tier) -> u64 {
    match tier {
        Tier::Quick => 24000,
        Tier::Thorough => 500000,
        Tier::Tiny => 48,
    }
}

const BATCH: usize = 12;

fn token_soup(rng: &mut Rng) -> String {
    let n = rng.range(1, 14);
    let mut s = String::new();
    for _ in 0..n {
        s.push_str(*rng.pick(HOSTILE));
        s.push_str(*rng.pick(&["", " ", " ", "\n", "(", ",", ")", "x", "1", "\t"]));
    }
    s
}

fn byte_soup(rng: &mut Rng) -> Vec<u8> {
    let n = rng.range(0, 40);
    (0..n)
        .map(|_| {
            let k = rng.below(10);
            if k < 6 {
                *rng.pick(b"`\"\\/*()[]{}'#@$ \n\tabx01=;,.<>") as u8
            } else {
                rng.below(256) as u8
            }
        })
        .collect()
}

fn deep_nest(rng: &mut Rng) -> String {
    let d = rng.range(5, 60);
    match rng.below(5) {
        0 => format!("module m; assign a = {}b{}; endmodule", "(".repeat(d), ")".repeat(d)),
        1 => format!("module m; initial {} a = 1; {} endmodule", "begin ".repeat(d), "end ".repeat(d)),
        2 => format!("module m; assign a = {}b{}; endmodule", "{".repeat(d), "}".repeat(d)),
        3 => {
            let mut s = String::new();
            for i in 0..d {
                s.push_str(&format!("`ifdef A{}\n", i));
            }
            s.push_str("x\n");
            for _ in 0..d {
                s.push_str("`endif\n");
            }
            s
        }
        _ => format!("`define M(a) a\n{}1{}\n", "`M(".repeat(d), ")".repeat(d)),
    }
}

pub fn gen_input(env: &Env, rng: &mut Rng) -> (String, &'static str) {
    match rng.below(100) {
        0..=24 => (token_soup(rng), "token-soup"),
        25..=34 => (String::from_utf8_lossy(&byte_soup(rng)).to_string(), "byte-soup"),
        35..=59 => (mutate::byte_mutate(env.corpus.pick_program(rng), rng), "corpus-bytemut"),
        60..=74 => (mutate::token_mutate(env.corpus.pick_program(rng), rng), "corpus-tokmut"),
        75..=79 => {
            // every prefix of small programs is covered over time: pick a random prefix
            let p = env.corpus.pick_program(rng);
            let mut cut = rng.below(p.len() + 1);
            while !p.is_char_boundary(cut) {
                cut -= 1;
            }
            (p[..cut].to_string(), "prefix")
        }
        80..=84 => (deep_nest(rng), "deep-nest"),
        85..=89 => {
            let mut s = mutate::byte_mutate(env.corpus.pick_program(rng), rng);
            s = mutate::byte_mutate(&s, rng);
            (mutate::byte_mutate(&s, rng), "corpus-bytemut3")
        }
        90..=94 => {
            let g = crate::gen_sv::program(rng, &crate::gen_sv::Opts::default());
            (mutate::byte_mutate(&g.text, rng), "gsv-bytemut")
        }
        _ => (crate::workload::lib_text(rng) + &token_soup(rng), "lib-soup"),
    }
}

/// Drive everything that can be done with an accepted tree; all inside `lib`.
fn exercise_tree(tree: &SyntaxTree, st: &mut (u64, u64)) -> Result<(), String> {
    let mut nodes = 0u64;
    for _ in tree {
        nodes += 1;
    }
    let mut ev = 0u64;
    for _ in tree.into_iter().event() {
        ev += 1;
    }
    if ev != 2 * nodes {
        return Err(format!("{} events for {} nodes", ev, nodes));
    }
    st.0 += nodes;
    let _ = format!("{}", tree);
    let _ = format!("{:?}", tree);
    // get_str / get_str_trim / Locate::try_from on nodes; big trees are sampled
    let step = if nodes > 4000 { (nodes / 4000 + 1) as usize } else { 1 };
    for (i, n) in tree.into_iter().enumerate() {
        if i % step != 0 {
            continue;
        }
        st.1 += 1;
        let _ = tree.get_str(vec![n.clone()]);
        let _ = tree.get_str_trim(vec![n.clone()]);
        macro_rules! tf {
            ($($v:ident),*) => { match &n { $(RefNode::$v(x) => { let _ = Locate::try_from(*x); })* _ => {} } };
        }
        tf!(
            SourceText, Description, ModuleDeclaration, ModuleDeclarationAnsi, ModuleDeclarationNonansi, ModuleAnsiHeader, ModuleNonansiHeader,
            ModuleItem, NonPortModuleItem, ModuleOrGenerateItem, ModuleCommonItem, Expression, ConstantExpression, Primary, ConstantPrimary,
            Statement, StatementItem, StatementOrNull, SeqBlock, ParBlock, Identifier, SimpleIdentifier, EscapedIdentifier, Keyword, Symbol,
            WhiteSpace, Comment, CompilerDirective, TextMacroDefinition, TextMacroUsage, IncludeCompilerDirective, Number, StringLiteral,
            DataDeclaration, NetDeclaration, ContinuousAssign, AlwaysConstruct, InitialConstruct, ModuleInstantiation, HierarchicalInstance,
            FunctionDeclaration, TaskDeclaration, ClassDeclaration, PackageDeclaration, InterfaceDeclaration, ProgramDeclaration,
            LibraryText, LibraryDescription, LibraryDeclaration, IncludeStatement, ConfigDeclaration, FilePathSpec, PortDeclaration,
            AnsiPortDeclaration, ParameterDeclaration, LocalParameterDeclaration, DataType, NetLvalue, VariableLvalue, ListOfArguments,
            GenerateRegion, LoopGenerateConstruct, ConditionalStatement, CaseStatement, LoopStatement, TimescaleCompilerDirective,
            KeywordsDirective, EndkeywordsDirective, Pragma, LineCompilerDirective, DefaultNettypeCompilerDirective, ResetallCompilerDirective
        );
    }
    Ok(())
}

fn rand_cfg(rng: &mut Rng, dir: &Path) -> Cfg {
    let mut defines = Vec::new();
    for _ in 0..rng.below(3) {
        let name = rng.pick(&["A", "X", "M", "A0", "define", "__LINE__", "SV_COV_START", "é"]).to_string();
        let v = match rng.below(4) {
            0 => None,
            1 => Some((vec![], None)),
            2 => Some((vec![], Some(rng.pick(&["1", "`A", "x y", "\"s\"", "`", "(", "`X(1)", "", "x", "é", "\"", "\"\"", " ", "\"é\"", "<f>", "f.svh"]).to_string()))),
            _ => Some((vec![("a".to_string(), None), ("b".to_string(), Some("2".to_string()))], Some("a + b".to_string()))),
        };
        defines.push((name, v));
    }
    Cfg {
        defines,
        include_paths: if rng.chance(1, 2) { vec![dir.to_path_buf()] } else { vec![dir.to_path_buf(), PathBuf::from("/nonexistent-dir")] },
        ignore_include: rng.chance(1, 4),
        allow_incomplete: rng.chance(1, 3),
        strip_comments: rng.chance(1, 3),
    }
}

pub fn run_case(env: &Env, ctx: &mut Ctx, idx: u64) {
    let mut rng = Rng::derive(ctx.seed, 8, idx, 0);
    let dir = ctx.tmpdir.join("c08");
    let _ = std::fs::create_dir_all(&dir);
    if rng.chance(1, 16) {
        file_faults(ctx, &mut rng, &dir);
        return;
    }
    let batch = if ctx.tier == Tier::Tiny { 2 } else { BATCH };
    for _ in 0..batch {
        let (src, kind) = if ctx.tier == Tier::Tiny {
            let t = crate::workload::tiny_input(&mut rng).text;
            match rng.below(3) {
                0 => (t, "tiny"),
                1 => (mutate::byte_mutate(&t, &mut rng), "tiny-bytemut"),
                _ => (mutate::token_mutate(&t, &mut rng), "tiny-tokmut"),
            }
        } else {
            gen_input(env, &mut rng)
        };
        let cfg = rand_cfg(&mut rng, &dir);
        ctx.count("inputs", 1);
        ctx.count(&format!("kind:{}", kind), 1);
        let path = Path::new("c08.sv");
        let mut st = (0u64, 0u64);
        let report = |ctx: &mut Ctx, ep: &str, p: &LibPanic| {
            let site = panic_site(p);
            let m = format!("{} panicked: {}", ep, p.0);
            let w = Obj::new().s("entry_point", ep).s("input", &src).raw("config", &cfg.json()).s("panic", &p.0).done();
            ctx.violation("panic", &format!("panic@{}", site), &m, w);
        };
        // preprocess_str
        ctx.count("calls", 1);
        match pp_str(&src, path, &cfg) {
            Err(p) => report(ctx, "preprocess_str", &p),
            Ok(Ok((t, _))) => {
                ctx.count("pp_ok", 1);
                let r = lib(|| {
                    for i in 0..t.text().len() {
                        let _ = t.origin(i);
                    }
                    let _ = t.origin(t.text().len());
                    let _ = t.origin(usize::MAX - 1);
                });
                if let Err(p) = r {
                    report(ctx, "PreprocessedText::origin", &p);
                }
            }
            Ok(Err(e)) => {
                ctx.count("pp_err", 1);
                ctx.seen("error_variants", variant(&e));
            }
        }
        // parse_sv_str / parse_lib_str
        for g in [Gram::Sv, Gram::Lib] {
            if g == Gram::Lib && !rng.chance(1, 3) && kind != "lib-soup" {
                continue;
            }
            ctx.count("calls", 1);
            match parse_str(g, &src, path, &cfg) {
                Err(p) => report(ctx, if g == Gram::Sv { "parse_sv_str" } else { "parse_lib_str" }, &p),
                Ok(Ok((tree, _))) => {
                    ctx.count("trees", 1);
                    match lib(|| exercise_tree(&tree, &mut st)) {
                        Err(p) => report(ctx, "tree iteration / Display / Debug / get_str / Locate::try_from", &p),
                        Ok(Err(m)) => ctx.violation("events", "", &m, Obj::new().s("input", &src).done()),
                        Ok(Ok(())) => {}
                    }
                    // a tree must at least satisfy the bounds get_str relies on
                    let mut full = String::new();
                    let _ = lib(|| {
                        for n in &tree {
                            if let RefNode::Locate(l) = n {
                                full.push_str(tree.get_str(l).unwrap_or(""));
                            }
                        }
                    });
                    let _ = mon_tile::check_leaves(&tree, &full, false);
                }
                Ok(Err(e)) => {
                    ctx.count("parse_err", 1);
                    ctx.seen("error_variants", variant(&e));
                }
            }
        }
        ctx.count("tree_nodes_iterated", st.0);
        ctx.count("nodes_get_str_try_from", st.1);
        ctx.nontrivial(hash_str(&src));
        if ctx.want_sample() && rng.chance(1, 40) {
            ctx.sample(Obj::new().s("input", &clip(&src, 200)).s("kind", kind).raw("config", &cfg.json()).done());
        }
    }
}

fn variant(e: &Error) -> &'static str {
    match e {
        Error::Io(_) => "Io",
        Error::File { .. } => "File",
        Error::ReadUtf8(_) => "ReadUtf8",
        Error::Include { .. } => "Include",
        Error::Parse(_) => "Parse",
        Error::Preprocess(_) => "Preprocess",
        Error::DefineArgNotFound(_) => "DefineArgNotFound",
        Error::DefineNotFound(_) => "DefineNotFound",
        Error::DefineNoArgs(_) => "DefineNoArgs",
        Error::ExceedRecursiveLimit => "ExceedRecursiveLimit",
        Error::IncludeLine => "IncludeLine",
    }
}

/// describe the Include wrapping of an error: (depth, innermost)
fn unwrap_include(e: &Error) -> (usize, &Error) {
    let mut d = 0;
    let mut cur = e;
    while let Error::Include { source } = cur {
        d += 1;
        cur = &**source;
    }
    (d, cur)
}

fn file_faults(ctx: &mut Ctx, rng: &mut Rng, dir: &Path) {
    // files with arbitrary bytes, truncated UTF-8, directories, missing targets; direct and through 1-2 include levels
    let uid = rng.below(1_000_000);
    let bad = dir.join(format!("bad{}.svh", uid));
    let bytes: Vec<u8> = match rng.below(4) {
        0 => vec![0xff, 0xfe, b'a'],
        1 => b"module m; // \xc3".to_vec(),
        2 => {
            let mut v = b"`define X 1\n".to_vec();
            v.extend(byte_soup(rng));
            v.push(0xff);
            v
        }
        _ => vec![0xc0, 0xaf],
    };
    let _ = std::fs::write(&bad, &bytes);
    let subdir = dir.join(format!("dir{}.svh", uid));
    let _ = std::fs::create_dir_all(&subdir);
    let missing = format!("missing{}.svh", uid);
    let target_kind = rng.below(3); // 0 non-utf8, 1 directory, 2 missing
    let (target_name, target_path): (String, PathBuf) = match target_kind {
        0 => (bad.file_name().unwrap().to_string_lossy().to_string(), bad.clone()),
        1 => (subdir.file_name().unwrap().to_string_lossy().to_string(), subdir.clone()),
        _ => (missing.clone(), PathBuf::from(&missing)),
    };
    let levels = rng.below(3);
    let cfg = Cfg { include_paths: vec![dir.to_path_buf()], ..Cfg::default() };
    // build chain: top -> l1 -> target
    let mut entry_path = target_path.clone();
    let mut name = target_name.clone();
    for lv in 0..levels {
        let f = dir.join(format!("lv{}_{}.svh", lv, uid));
        let q = if rng.chance(1, 2) { format!("`include \"{}\"\n", name) } else { format!("`include <{}>\n", name) };
        let _ = std::fs::write(&f, format!("// level {}\n{}", lv, q));
        name = f.file_name().unwrap().to_string_lossy().to_string();
        entry_path = f;
    }
    if levels == 0 && target_kind == 2 {
        entry_path = dir.join(&missing);
    }
    ctx.count("file_fault_cases", 1);
    ctx.count("calls", 2);
    let check = |ctx: &mut Ctx, api: &str, r: Result<Result<(), Error>, LibPanic>| match r {
        Err(p) => {
            let m = format!("{} panicked on a file fault: {}", api, p.0);
            ctx.violation("panic", &format!("panic@{}", panic_site(&p)), &m, Obj::new().s("api", api).s("panic", &p.0).done());
        }
        Ok(Ok(())) => {
            let m = format!("{} succeeded although the file chain ends in a {}", api, ["non-UTF-8 file", "directory", "missing file"][target_kind]);
            ctx.violation("file-fault-accepted", "", &m, Obj::new().s("api", api).n("levels", levels as u64).done());
        }
        Ok(Err(e)) => {
            let (d, inner) = unwrap_include(&e);
            let ok = d == levels
                && match (target_kind, inner) {
                    (0, Error::ReadUtf8(p)) | (1, Error::ReadUtf8(p)) => {
                        // path as tried: for included files the include-path-joined path, for the top file the given path
                        p == &target_path || p.file_name() == target_path.file_name()
                    }
                    (2, Error::File { path, .. }) => {
                        if levels == 0 {
                            path == &entry_path_clone(&entry_path)
                        } else {
                            path == &PathBuf::from(&missing)
                        }
                    }
                    _ => false,
                };
            ctx.count("file_fault_errors_checked", 1);
            if !ok {
                let m = format!(
                    "{}: file chain of {} include level(s) ending in a {} reported as {:?} (expected {} Include wrapper(s) around {})",
                    api,
                    levels,
                    ["non-UTF-8 file", "directory", "missing file"][target_kind],
                    e,
                    levels,
                    if target_kind == 2 { "File{path as tried}" } else { "ReadUtf8(path)" }
                );
                ctx.violation("file-fault-shape", "", &m, Obj::new().s("api", api).n("levels", levels as u64).s("error", &format!("{:?}", e)).done());
            }
        }
    };
    let r1 = pp_file(&entry_path, &cfg).map(|r| r.map(|_| ()));
    check(ctx, "preprocess", r1);
    let r2 = parse_file(Gram::Sv, &entry_path, &cfg).map(|r| r.map(|_| ()));
    check(ctx, "parse_sv", r2);
    let _ = std::fs::remove_file(&bad);
    let _ = std::fs::remove_dir_all(&subdir);
    ctx.nontrivial(hash_strs(&[&format!("{}-{}-{}", target_kind, levels, uid)]));
}

fn entry_path_clone(p: &Path) -> PathBuf {
    p.to_path_buf()
}
