//! C18 — strip_comments removes comments and nothing else.

use crate::api::*;
use crate::ctx::{Ctx, Tier};
use crate::gen_lex;
use crate::gen_pp;
use crate::lexer::{self, K};
use crate::mon_pp::Setup;
use crate::props::c04;
use crate::util::*;
use crate::Env;
use std::path::Path;

pub fn cases(tier: Tier) -> u64 {
    match tier {
        Tier::Quick => 300000,
        Tier::Thorough => 6000000,
        Tier::Tiny => 32,
    }
}

pub fn run_case(_env: &Env, ctx: &mut Ctx, idx: u64) {
    let mut rng = Rng::derive(ctx.seed, 18, idx, 0);
    if rng.chance(1, 6) {
        // include graphs: the flag must reach the included files (and expansions inside them)
        let dir = ctx.tmpdir.join(format!("c18-{}", idx));
        let mut o = c04::profile_c05(&mut rng);
        o.max_depth = 2;
        o.misuse = false;
        let prog = gen_pp::multi_file(&mut rng, o, 3);
        let rendered = gen_pp::render_opt(&prog, &mut rng, true);
        let cfg = Cfg { include_paths: vec![dir.clone()], ..Cfg::default() };
        let setup = Setup { prog, rendered, dir: Some(dir.clone()), cfg: cfg.clone(), top: 0 };
        setup.write_files();
        let top = setup.top_path();
        let all: String = setup.rendered.files.iter().map(|(n, t)| format!("// ==== {}\n{}", n, t)).collect();
        ctx.count("include_graph_inputs", 1);
        check_with(ctx, &all, &cfg, "include-graph", &|c: &Cfg| pp_file(&top, c));
        let _ = std::fs::remove_dir_all(&dir);
        return;
    }
    let (src, cfg, kind) = if rng.chance(1, 4) {
        (gen_lex::soup(&mut rng), Cfg::default(), "soup")
    } else {
        let o = if rng.chance(1, 2) { c04::profile_c04(&mut rng) } else { c04::profile_c05(&mut rng) };
        let n = rng.range(2, 7);
        let prog = gen_pp::single_file(&mut rng, o, n);
        let rendered = gen_pp::render_opt(&prog, &mut rng, true);
        (rendered.files[0].1.clone(), Setup::cfg_with_predefs(&prog, Cfg::default()), "gpp")
    };
    check(ctx, &src, &cfg, kind);
}

pub fn check(ctx: &mut Ctx, src: &str, cfg: &Cfg, kind: &str) {
    let path = Path::new("c18.sv");
    check_with(ctx, src, cfg, kind, &|c: &Cfg| pp_str(src, path, c));
}

type PpRun<'a> = &'a dyn Fn(&Cfg) -> Result<Result<(sv_parser::PreprocessedText, Defs), sv_parser::Error>, LibPanic>;

pub fn check_with(ctx: &mut Ctx, src: &str, cfg: &Cfg, kind: &str, run: PpRun) {
    ctx.count("inputs", 1);
    let plain = canon_pp(run(&Cfg { strip_comments: false, ..cfg.clone() }));
    let strip = canon_pp(run(&Cfg { strip_comments: true, ..cfg.clone() }));
    let witness = |d: &str| Obj::new().s("input", src).raw("config", &cfg.json()).s("kind", kind).s("detail", d).done();
    match (&plain, &strip) {
        (PpCanon::Panic(_), _) | (_, PpCanon::Panic(_)) => ctx.inconclusive("lib_panic"),
        (PpCanon::Err(a), PpCanon::Err(b)) => {
            ctx.count("both_error", 1);
            if a != b {
                let m = format!("errors differ: without stripping {}, with stripping {}", a, b);
                ctx.violation("error-differs", "", &m, witness(&m));
            }
        }
        (PpCanon::Ok(a), PpCanon::Ok(b)) => {
            ctx.count("both_ok", 1);
            let (ta, _) = lexer::lex(&a.text);
            let n_comments = ta.iter().filter(|t| matches!(t.k, K::LineComment | K::BlockComment)).count();
            ctx.count("comments_in_plain_output", n_comments as u64);
            let toks_a: Vec<&str> = lexer::tokens(&a.text);
            let toks_b: Vec<&str> = lexer::tokens(&b.text);
            if toks_a != toks_b {
                let k = toks_a.iter().zip(toks_b.iter()).position(|(x, y)| x != y).unwrap_or(toks_a.len().min(toks_b.len()));
                let lo = k.saturating_sub(2);
                let m = format!(
                    "non-comment token sequences differ at #{}: without stripping {:?}, with stripping {:?}",
                    k,
                    &toks_a[lo..(k + 3).min(toks_a.len())],
                    &toks_b[lo..(k + 3).min(toks_b.len())]
                );
                // K1 model quirk (directive-free inputs only): both outputs are exactly what the K1 model predicts —
                // the doubled trivia of a literal can glue comment delimiters into different tokens
                let k1 = kind == "soup"
                    && crate::gen_lex::k1_model_mode(src, false).as_deref() == Some(a.text.as_str())
                    && crate::gen_lex::k1_model_mode(src, true).as_deref() == Some(b.text.as_str())
                    && a.text != src;
                ctx.violation("tokens-differ", if k1 { "K1" } else { "" }, &m, witness(&m));
            } else if n_comments > 0 {
                ctx.nontrivial(hash_str(src));
            }
            if a.defines != b.defines {
                let m = "define tables differ between strip_comments on/off".to_string();
                ctx.violation("table-differs", "", &m, witness(&m));
            }
            // no comment in stripped output outside kept `define lines
            let (tb, _) = lexer::lex(&b.text);
            let mut in_define = false;
            let mut prev_non_trivia: Option<K> = None;
            for t in &tb {
                let tx = &b.text[t.s..t.e];
                match t.k {
                    K::Tick => {
                        // (a backtick inside the body -- paste, nested usage -- does not end the define line)
                        if !in_define {
                            in_define = tx == "`define";
                        }
                        prev_non_trivia = Some(t.k);
                    }
                    K::Ws => {
                        if in_define {
                            // a define line ends at a newline that is not preceded by a backslash
                            let bytes = b.text.as_bytes();
                            for (j, c) in tx.bytes().enumerate() {
                                if c == b'\n' {
                                    let abs = t.s + j;
                                    let cont = abs > 0 && (bytes[abs - 1] == b'\\' || (bytes[abs - 1] == b'\r' && abs > 1 && bytes[abs - 2] == b'\\'));
                                    if !cont {
                                        in_define = false;
                                    }
                                }
                            }
                        }
                    }
                    K::LineComment | K::BlockComment => {
                        if in_define {
                            ctx.count("comments_kept_in_define_lines", 1);
                            if t.k == K::LineComment {
                                in_define = false;
                            }
                        } else {
                            let m = format!("comment {:?} survives strip_comments outside a kept `define", clip(tx, 60));
                            // K1: trailing trivia of a string literal / escaped identifier is copied as part of the literal
                            let sig = if matches!(prev_non_trivia, Some(K::Str) | Some(K::EscId)) { "K1" } else { "" };
                            ctx.violation("comment-survives", sig, &m, witness(&m));
                            break;
                        }
                    }
                    _ => prev_non_trivia = Some(t.k),
                }
            }
            if ctx.want_sample() && n_comments > 1 {
                ctx.sample(Obj::new().s("input", &clip(src, 300)).s("stripped_output", &clip(&b.text, 300)).done());
            }
        }
        (a, b) => {
            let m = format!("one run fails, the other succeeds: without stripping {}, with stripping {}", a.brief(), b.brief());
            ctx.violation("error-differs", "", &m, witness(&m));
        }
    }
}
