//! C17 — the packrat memo table is a pure optimisation.

use crate::api::*;
use crate::ctx::{Ctx, Tier};
use crate::mutate::{self, Layout};
use crate::util::*;
use crate::workload;
use crate::Env;
use std::time::Duration;
use sv_parser_parser::verif_hooks as hooks;
use sv_parser_parser::{lib_parser, lib_parser_incomplete, sv_parser, sv_parser_incomplete, Span, SpanInfo};

/// case indices below CATALOGUE_SLOTS are the fixed catalogue (the same inputs at every seed and in both tiers)
pub const CATALOGUE_SLOTS: u64 = 3000;

pub fn cases(tier: Tier) -> u64 {
    match tier {
        Tier::Quick => CATALOGUE_SLOTS + 2000,
        Tier::Thorough => CATALOGUE_SLOTS + 40000,
        Tier::Tiny => 8,
    }
}

#[derive(Clone, Debug, PartialEq, Eq)]
pub enum R {
    Ok(Skel, usize),
    Err,
    Panic(String),
}

#[derive(Clone, Debug, Default)]
pub struct RunInfo {
    pub c: hooks::MemoCounters,
    pub version_pushes: usize,
}

/// one raw-parser run at a capacity (None = unbounded; Some(0) = "leave the default alone")
pub fn run_at(text: &str, gram: Gram, incomplete: bool, cap: Option<usize>, flag_aware: bool) -> (R, RunInfo) {
    match cap {
        Some(0) => hooks::set_capacity(Some(hooks::DEFAULT_CAPACITY)),
        c => hooks::set_capacity(c),
    }
    hooks::set_flag_aware_key(flag_aware);
    hooks::reset_memo_counters();
    hooks::set_event_log(true);
    let r = lib(|| {
        let span = Span::new_extra(text, SpanInfo::default());
        match (gram, incomplete) {
            (Gram::Sv, false) => sv_parser(span).map(|(r, t)| (exact_skeleton(&t), r.location_offset())).map_err(|_| ()),
            (Gram::Sv, true) => sv_parser_incomplete(span).map(|(r, t)| (exact_skeleton(&t), r.location_offset())).map_err(|_| ()),
            (Gram::Lib, false) => lib_parser(span).map(|(r, t)| (exact_skeleton(&t), r.location_offset())).map_err(|_| ()),
            (Gram::Lib, true) => lib_parser_incomplete(span).map(|(r, t)| (exact_skeleton(&t), r.location_offset())).map_err(|_| ()),
        }
    });
    let log = hooks::take_event_log();
    hooks::set_event_log(false);
    let info = RunInfo { c: hooks::memo_counters(), version_pushes: log.iter().filter(|e| e.kind == hooks::EventKind::BeginKeywords).count() };
    hooks::set_flag_aware_key(false);
    hooks::set_capacity(Some(hooks::DEFAULT_CAPACITY));
    let r = match r {
        Ok(Ok((s, rest))) => R::Ok(s, rest),
        Ok(Err(())) => R::Err,
        Err(p) => R::Panic(p.0),
    };
    (r, info)
}

/// one raw-parser run that does not touch the table's configuration (entries of earlier calls stay where the library leaves them)
fn run_plain(text: &str, gram: Gram, incomplete: bool) -> R {
    let r = lib(|| {
        let span = Span::new_extra(text, SpanInfo::default());
        match (gram, incomplete) {
            (Gram::Sv, false) => sv_parser(span).map(|(r, t)| (exact_skeleton(&t), r.location_offset())).map_err(|_| ()),
            (Gram::Sv, true) => sv_parser_incomplete(span).map(|(r, t)| (exact_skeleton(&t), r.location_offset())).map_err(|_| ()),
            (Gram::Lib, false) => lib_parser(span).map(|(r, t)| (exact_skeleton(&t), r.location_offset())).map_err(|_| ()),
            (Gram::Lib, true) => lib_parser_incomplete(span).map(|(r, t)| (exact_skeleton(&t), r.location_offset())).map_err(|_| ()),
        }
    });
    match r {
        Ok(Ok((s, rest))) => R::Ok(s, rest),
        Ok(Err(())) => R::Err,
        Err(p) => R::Panic(p.0),
    }
}

/// Run in a child process (`svverif memo1`) with a wall-clock bound; the child is killed on expiry.
/// None = did not finish (inconclusive for the caller).
fn run_bounded(text: &str, gram: Gram, incomplete: bool, cap: Option<usize>, flag_aware: bool, ms: u64) -> Option<(R, RunInfo)> {
    use std::io::{Read, Write};
    use std::process::{Command, Stdio};
    let exe = std::env::current_exe().ok()?;
    let mut child = Command::new(exe)
        .arg("memo1")
        .arg(match cap {
            None => "none".to_string(),
            Some(c) => c.to_string(),
        })
        .arg(if flag_aware { "1" } else { "0" })
        .arg(if gram == Gram::Sv { "sv" } else { "lib" })
        .arg(if incomplete { "1" } else { "0" })
        .stdin(Stdio::piped())
        .stdout(Stdio::piped())
        .stderr(Stdio::null())
        .spawn()
        .ok()?;
    {
        let mut si = child.stdin.take()?;
        let _ = si.write_all(text.as_bytes());
    }
    let t0 = std::time::Instant::now();
    loop {
        match child.try_wait() {
            Ok(Some(_)) => break,
            Ok(None) => {
                if t0.elapsed() > Duration::from_millis(ms) {
                    let _ = child.kill();
                    let _ = child.wait();
                    return None;
                }
                std::thread::sleep(Duration::from_millis(2));
            }
            Err(_) => return None,
        }
    }
    let mut out = String::new();
    child.stdout.take()?.read_to_string(&mut out).ok()?;
    parse_memo1(&out)
}

pub fn memo1_main(args: &[String]) {
    use std::io::Read;
    let cap = if args[2] == "none" { None } else { Some(args[2].parse::<usize>().unwrap()) };
    let fa = args[3] == "1";
    let gram = if args[4] == "sv" { Gram::Sv } else { Gram::Lib };
    let inc = args[5] == "1";
    let mut src = String::new();
    std::io::stdin().read_to_string(&mut src).unwrap();
    let (r, i) = run_at(&src, gram, inc, cap, fa);
    let rs = match r {
        R::Ok(s, rest) => format!("OK {} {} {} {}", s.hash, s.nodes, s.leaves, rest),
        R::Err => "ERR".to_string(),
        R::Panic(p) => format!("PANIC {}", p.replace('\n', " ")),
    };
    println!("{}", rs);
    println!("{} {} {} {} {} {} {}", i.c.gets, i.c.hits, i.c.misses, i.c.inserts, i.c.evictions, i.c.hits_with_different_guard_bits, i.version_pushes);
}

fn parse_memo1(out: &str) -> Option<(R, RunInfo)> {
    let mut lines = out.lines();
    let l1 = lines.next()?;
    let l2 = lines.next()?;
    let r = if l1 == "ERR" {
        R::Err
    } else if let Some(p) = l1.strip_prefix("PANIC ") {
        R::Panic(p.to_string())
    } else {
        let f: Vec<&str> = l1.split(' ').collect();
        if f.len() != 5 || f[0] != "OK" {
            return None;
        }
        R::Ok(Skel { hash: f[1].parse().ok()?, nodes: f[2].parse().ok()?, leaves: f[3].parse().ok()? }, f[4].parse().ok()?)
    };
    let n: Vec<u64> = l2.split(' ').filter_map(|x| x.parse().ok()).collect();
    if n.len() != 7 {
        return None;
    }
    let c = hooks::MemoCounters { gets: n[0], hits: n[1], misses: n[2], inserts: n[3], evictions: n[4], hits_with_different_guard_bits: n[5], clears: 0 };
    Some((r, RunInfo { c, version_pushes: n[6] as usize }))
}

pub fn strip_keywords_directives(text: &str) -> String {
    let mut s = text.to_string();
    for pat in ["`begin_keywords", "`end_keywords"] {
        while let Some(i) = s.find(pat) {
            let mut e = i + pat.len();
            if pat == "`begin_keywords" {
                // also blank the quoted version specifier
                let rest = &s[e..];
                if let Some(q1) = rest.find('"') {
                    if rest[..q1].trim().is_empty() {
                        if let Some(q2) = rest[q1 + 1..].find('"') {
                            e = e + q1 + 1 + q2 + 1;
                        }
                    }
                }
            }
            let blank: String = s[i..e].chars().map(|c| if c == '\n' { '\n' } else { ' ' }).collect();
            s.replace_range(i..e, &blank);
        }
    }
    s
}

const DIR_LAYOUT: Layout = Layout { directives: true, defines: true, non_ascii: false, form_feed: false, comments: true };

fn with_keywords_directives(text: &str, rng: &mut Rng) -> Option<String> {
    // directives (incl. `begin_keywords / `end_keywords) at arbitrary trivia positions
    let t = mutate::relayout(text, rng, &DIR_LAYOUT)?;
    let (toks, _) = crate::lexer::lex(&t);
    let ws: Vec<usize> = toks.iter().filter(|k| k.k == crate::lexer::K::Ws).map(|k| k.s).collect();
    if ws.is_empty() {
        return Some(t);
    }
    let mut ins: Vec<(usize, String)> = Vec::new();
    for _ in 0..rng.range(1, 3) {
        let p = *rng.pick(&ws);
        let v = *rng.pick(&["1364-1995", "1364-2001", "1364-2001-noconfig", "1364-2005", "1800-2005", "1800-2009", "1800-2012", "1800-2017"]);
        ins.push((p, if rng.chance(2, 3) { format!(" `begin_keywords \"{}\"\n", v) } else { " `end_keywords\n".to_string() }));
    }
    ins.sort();
    let mut out = String::new();
    let mut last = 0;
    for (p, s) in ins {
        out.push_str(&t[last..p]);
        out.push_str(&s);
        last = p;
    }
    out.push_str(&t[last..]);
    Some(out)
}

const CLASSIFY_MS: u64 = 6000;

const STRESS_TAILS: &[&str] = &["(a ##1 b)", "(a ##[1:3] b)", "a |-> b", "(@(posedge clk) a ##1 b)", "(a and b)"];
const STRESS_TEMPLATES: usize = 8;

fn stress_at(template: usize, n: usize, variant: usize) -> String {
    let ids = |k: usize, p: &str| (0..k).map(|i| format!("{}{}", p, i)).collect::<Vec<_>>();
    match template {
        0 => {
            let mut conns = ids(n, "i");
            conns.push(STRESS_TAILS[variant % STRESS_TAILS.len()].to_string());
            format!("module t; chk c1 (o, {}); endmodule\n", conns.join(", "))
        }
        1 => format!("module t; assign x = s ? {} : c; endmodule\n", ids(n + 1, "b").join(" + ")),
        2 => {
            let mut e = String::from("z");
            for i in 0..n.min(12) {
                e = format!("(A == {}) ? {} - 1 : {}", i, i, e);
            }
            format!("module a; localparam a = {}; endmodule\n", e)
        }
        3 => format!("module t; assign x = {{{}}}; endmodule\n", ids(n + 1, "p").join(", ")),
        4 => format!("module t; initial f({}); endmodule\n", ids(n + 1, "q").iter().map(|x| format!("{} + 1", x)).collect::<Vec<_>>().join(", ")),
        5 => {
            let items: String = (0..n.min(20) + 1).map(|i| format!("{}: x = {};\n", i, i)).collect();
            format!("module t; always_comb case (s)\n{}default: x = 0;\nendcase endmodule\n", items)
        }
        6 => format!("module t; sub u ({}); endmodule\n", ids(n + 1, "w").iter().map(|x| format!(".{}({}[3:0])", x, x)).collect::<Vec<_>>().join(", ")),
        _ => format!("module t; property p; @(posedge clk) {} ; endproperty assert property (p); endmodule\n", ids(n.min(12) + 1, "s").join(" ##1 ")),
    }
}

/// small sentences whose list lengths vary the pressure on the memo table (how many entries are stored
/// between two attempts at the same position), around constructs that are tried by several alternatives
fn stress_sentence(rng: &mut Rng) -> String {
    let n = rng.range(0, 40);
    let t = rng.below(STRESS_TEMPLATES);
    let v = rng.below(STRESS_TAILS.len());
    stress_at(t, n, v)
}

const CATALOGUE_NS: &[usize] = &[0, 1, 2, 3, 4, 6, 8, 12, 16, 20, 24, 28, 32, 36, 40];

/// The fixed catalogue: every vendored corpus program, then the stress family at fixed sizes.
/// An entry is identified by the hash of its source text.
pub fn catalogue_entry(env: &Env, i: usize) -> Option<String> {
    let np = env.corpus.programs.len();
    if i < np {
        return Some(env.corpus.programs[i].clone());
    }
    let mut j = i - np;
    // template 0 has the variants of its last connection, the others a single form
    let per0 = CATALOGUE_NS.len() * STRESS_TAILS.len();
    if j < per0 {
        return Some(stress_at(0, CATALOGUE_NS[j / STRESS_TAILS.len()], j % STRESS_TAILS.len()));
    }
    j -= per0;
    let t = 1 + j / CATALOGUE_NS.len();
    if t < STRESS_TEMPLATES {
        return Some(stress_at(t, CATALOGUE_NS[j % CATALOGUE_NS.len()], 0));
    }
    None
}

pub fn caps_for(n: usize) -> Vec<Option<usize>> {
    let mut caps: Vec<Option<usize>> = vec![Some(0), Some(4096), Some(256), Some(128)];
    if n <= 2500 {
        caps.push(Some(64));
    }
    if n <= 1200 {
        caps.push(Some(32));
    }
    if n <= 500 {
        caps.push(Some(16));
    }
    if n <= 160 {
        caps.push(Some(8));
    }
    if n <= 80 {
        caps.extend([Some(4), Some(2), Some(1)]);
    }
    caps
}

fn capname(cap: Option<usize>) -> String {
    match cap {
        Some(0) => "default".to_string(),
        Some(c) => c.to_string(),
        None => "unbounded".into(),
    }
}

/// Catalogue case: the capacity dependences of the fixed inputs are enumerated one by one in
/// known_findings.json (signature CAT:<hash of the source>:<capacity>); one that is not listed is a
/// violation whatever its cause.  `ms`: wall-clock bound of one small-capacity run (expiry = not observed).
pub fn catalogue_case(env: &Env, ctx: &mut Ctx, i: usize, ms: u64) {
    let src = match catalogue_entry(env, i) {
        Some(s) => s,
        None => return,
    };
    let text = match pp_str(&src, std::path::Path::new("c17.sv"), &Cfg::default()) {
        Ok(Ok((t, _))) => t.text().to_string(),
        _ => src.clone(),
    };
    ctx.count("catalogue_inputs", 1);
    let (reference, _) = run_at(&text, Gram::Sv, false, None, false);
    // (capacities below 8 are left to the random leg: runs of several seconds, mostly expiring)
    for cap in caps_for(text.len()).into_iter().filter(|c| c.map(|c| c == 0 || c >= 8).unwrap_or(true)) {
        let got = if cap.map(|c| c != 0 && c <= 256).unwrap_or(false) { run_bounded(&text, Gram::Sv, false, cap, false, ms) } else { Some(run_at(&text, Gram::Sv, false, cap, false)) };
        let (r, info) = match got {
            None => {
                ctx.inconclusive("small_capacity_timeout");
                continue;
            }
            Some(x) => x,
        };
        ctx.count("catalogue_runs", 1);
        if info.c.evictions > 0 {
            ctx.count("catalogue_runs_with_evictions", 1);
        }
        if r == reference {
            continue;
        }
        let sig = format!("CAT:{:016x}:{}", hash_str(&src), capname(cap));
        let m = format!(
            "catalogue input #{}: result at memo capacity {} differs from the unbounded result: {} vs {} (evictions {})",
            i,
            capname(cap),
            brief(&r),
            brief(&reference),
            info.c.evictions
        );
        let w = Obj::new().s("parsed_text", &text).s("source", &src).s("capacity", &capname(cap)).s("at_capacity", &brief(&r)).s("unbounded", &brief(&reference)).done();
        ctx.violation("capacity-dependence-catalogue", &sig, &m, w);
    }
    ctx.nontrivial(hash_strs(&[&text, "cat"]));
}

pub fn run_case(env: &Env, ctx: &mut Ctx, idx: u64) {
    if ctx.tier != Tier::Tiny && idx < CATALOGUE_SLOTS {
        // SVVERIF_CAT_MS: longer bound for the enumeration run that produced the list in known_findings.json
        let ms = std::env::var("SVVERIF_CAT_MS").ok().and_then(|x| x.parse().ok()).unwrap_or(3000);
        catalogue_case(env, ctx, idx as usize, ms);
        return;
    }
    let mut rng = Rng::derive(ctx.seed, 17, idx, 0);
    let mut inp = workload::tree_input(env, &mut rng);
    if rng.chance(1, 4) {
        inp = workload::SvInput { text: stress_sentence(&mut rng), kind: "memo-stress", gram: Gram::Sv };
    }
    if rng.chance(1, 5) {
        if let Some(t) = with_keywords_directives(&inp.text, &mut rng) {
            inp.text = t;
            inp.kind = "keywords-directives";
        }
    }
    // the raw parser runs on preprocessed text: take the preprocessor's output when it succeeds
    let text = match pp_str(&inp.text, std::path::Path::new("c17.sv"), &Cfg::default()) {
        Ok(Ok((t, _))) => t.text().to_string(),
        _ => inp.text.clone(),
    };
    if ctx.tier == Tier::Tiny && text.len() > 200 {
        return;
    }
    let incomplete = rng.chance(1, 4);
    let gram = inp.gram;
    ctx.count("inputs", 1);
    let (reference, rinfo) = run_at(&text, gram, incomplete, None, false);
    ctx.count("memo_hits_unbounded", rinfo.c.hits);
    ctx.count("memo_inserts_unbounded", rinfo.c.inserts);
    let n = text.len();
    let caps = caps_for(n);
    let mut any_evictions = false;
    for cap in caps {
        let ms = 3000;
        let t_run = std::time::Instant::now();
        let got = if cap.map(|c| c != 0 && c <= 256).unwrap_or(false) { run_bounded(&text, gram, incomplete, cap, false, ms) } else { Some(run_at(&text, gram, incomplete, cap, false)) };
        let capname = capname(cap);
        let (r, info) = match got {
            None => {
                ctx.inconclusive("small_capacity_timeout");
                continue;
            }
            Some(x) => x,
        };
        ctx.count("runs", 1);
        ctx.count(&format!("ms_at_{}", capname), t_run.elapsed().as_millis() as u64);
        ctx.max(&format!("ms_single_run_at_{}", capname), t_run.elapsed().as_millis() as u64);
        ctx.count(&format!("runs_at_{}", capname), 1);
        ctx.count("memo_hits", info.c.hits);
        ctx.count("memo_misses", info.c.misses);
        ctx.count("memo_evictions", info.c.evictions);
        ctx.count(&format!("evictions_at_{}", capname), info.c.evictions);
        if info.c.evictions > 0 {
            any_evictions = true;
            ctx.count("runs_with_evictions", 1);
        }
        if r == reference {
            continue;
        }
        ctx.count("mismatches", 1);
        let m = format!(
            "result at memo capacity {} differs from the unbounded result: {} vs {} (evictions {}, guard-mismatched hits {})",
            capname,
            brief(&r),
            brief(&reference),
            info.c.evictions,
            info.c.hits_with_different_guard_bits
        );
        let w = Obj::new()
            .s("parsed_text", &text)
            .s("source", &inp.text)
            .s("grammar", if gram == Gram::Sv { "sv" } else { "lib" })
            .b("allow_incomplete", incomplete)
            .s("capacity", &capname)
            .s("at_capacity", &brief(&r))
            .s("unbounded", &brief(&reference))
            .done();
        // ---- cause classification (bounded; expiry = inconclusive, never a verdict)
        let mut sig = String::new();
        let mut probe_text = text.clone();
        let has_kw = text.contains("`begin_keywords") || text.contains("`end_keywords");
        let mut undecided = false;
        if has_kw {
            // K4: the version stack is parse-time state that is neither in the memo key nor restored on
            // backtracking; attributed when the capacity dependence needs the keywords directives
            probe_text = strip_keywords_directives(&text);
            let a = run_bounded(&probe_text, gram, incomplete, None, false, CLASSIFY_MS);
            let b = run_bounded(&probe_text, gram, incomplete, cap, false, CLASSIFY_MS);
            match (a, b) {
                (Some((ra, _)), Some((rb, _))) => {
                    if ra == rb {
                        sig = "K4".into();
                    }
                }
                _ => undecided = true,
            }
        }
        if sig.is_empty() && !undecided {
            // K3: hits are served across different left-recursion guard bits; attributed when, with the
            // guard bits in the key, the result no longer depends on the capacity: R_fa(c) == R_fa(unbounded)
            let a = run_bounded(&probe_text, gram, incomplete, None, true, CLASSIFY_MS);
            let b = run_bounded(&probe_text, gram, incomplete, cap, true, CLASSIFY_MS);
            match (a, b) {
                (Some((ra, ia)), Some((rb, _))) => {
                    let _ = ia;
                    if ra == rb && (info.c.hits_with_different_guard_bits > 0 || rinfo.c.hits_with_different_guard_bits > 0) {
                        sig = if has_kw { "K3+K4".into() } else { "K3".into() };
                    }
                }
                _ => undecided = true,
            }
        }
        if undecided && sig.is_empty() {
            ctx.inconclusive("cause_classifier_timeout");
            ctx.count("mismatches_unclassified_timeout", 1);
            continue;
        }
        let (sig, note) = crate::memo_cfg::attribute(env, &sig);
        ctx.violation("capacity-dependence", &sig, &format!("{}{}", m, note), w);
    }
    // ---- a buffer overwritten in place: the keys of the table are addresses, so entries must not outlive a call.
    // Text A is parsed, then a text of the same length at the same address (all four raw entry points as the
    // second call); the reference is the second text parsed alone from another allocation with an unbounded table.
    if rng.chance(1, 3) {
        if let Some(edited) = mutate::same_length_edit(&text, &mut rng) {
            let second_incomplete = rng.chance(1, 2);
            let (want, _) = run_at(&edited, gram, second_incomplete, None, false);
            let mut buf = String::with_capacity(text.len() + 8);
            buf.push_str(&text);
            let p0 = buf.as_ptr();
            // (the hook that sets the capacity drops all entries, so these two calls leave the table alone:
            // default capacity, whatever the first call stored is still there when the second starts)
            let cap = Some(0);
            let _ = run_plain(&buf, gram, incomplete);
            buf.clear();
            buf.push_str(&edited);
            let got = run_plain(&buf, gram, second_incomplete);
            ctx.count("in_place_edits", 1);
            if buf.as_ptr() == p0 {
                ctx.count("in_place_edits_at_same_address", 1);
            }
            if got != want {
                // the second text alone at the same capacity tells a stale table from an ordinary capacity dependence
                let (alone, _) = run_at(&edited, gram, second_incomplete, cap, false);
                if alone == want {
                    let m = format!(
                        "a text parsed after another text of the same length at the same address gives {} but {} when parsed alone (second call {})",
                        brief(&got),
                        brief(&want),
                        if second_incomplete { "incomplete" } else { "strict" }
                    );
                    let w = Obj::new().s("first_text", &text).s("second_text", &edited).s("grammar", if gram == Gram::Sv { "sv" } else { "lib" }).b("second_incomplete", second_incomplete).done();
                    ctx.violation("stale-memo-across-calls", "", &m, w);
                }
            }
        }
    }
    if any_evictions {
        ctx.nontrivial(hash_strs(&[&text, if incomplete { "i" } else { "s" }]));
    }
    if ctx.want_sample() && any_evictions {
        ctx.sample(Obj::new().s("input", &clip(&text, 300)).s("kind", inp.kind).s("unbounded_result", &brief(&reference)).done());
    }
}

fn brief(r: &R) -> String {
    match r {
        R::Ok(s, rest) => format!("Ok(nodes={}, hash={:x}, consumed={})", s.nodes, s.hash, rest),
        R::Err => "Err".into(),
        R::Panic(p) => format!("PANIC {}", clip(p, 100)),
    }
}
