//! C01 — leaves tile the preprocessed text.

use crate::api::*;
use crate::ctx::{Ctx, Tier};
use crate::mon_tile;
use crate::util::*;
use crate::workload;
use crate::Env;
use std::path::Path;
use sv_parser::*;

pub fn cases(tier: Tier) -> u64 {
    match tier {
        Tier::Quick => 32000,
        Tier::Thorough => 600000,
        Tier::Tiny => 64,
    }
}

pub fn run_case(env: &Env, ctx: &mut Ctx, idx: u64) {
    let mut rng = Rng::derive(ctx.seed, 1, idx, 0);
    let mut inp = if ctx.tier == Tier::Tiny { workload::tiny_input(&mut rng) } else { workload::tree_input(env, &mut rng) };
    let incomplete = rng.chance(1, 3);
    // incomplete mode additionally on truncated / junk-suffixed inputs
    if incomplete {
        match rng.below(4) {
            0 => {
                let mut cut = rng.below(inp.text.len() + 1);
                while !inp.text.is_char_boundary(cut) {
                    cut -= 1;
                }
                inp.text.truncate(cut);
                inp.kind = "truncated";
            }
            1 => {
                inp.text.push_str(*rng.pick(&["\n§ junk", "\n) ) )", "\nendmodule endmodule", "\n\u{1}"]));
                inp.kind = "junk-suffix";
            }
            _ => {}
        }
    }
    let raw = !inp.text.contains('`') && rng.chance(1, 4);
    check_one(ctx, &inp.text, inp.gram, incomplete, raw, inp.kind);
}

fn clip_bytes(s: &str, n: usize) -> String {
    if s.len() <= n {
        return s.to_string();
    }
    let mut e = n;
    while !s.is_char_boundary(e) {
        e -= 1;
    }
    s[..e].to_string()
}

pub fn check_one(ctx: &mut Ctx, src: &str, gram: Gram, incomplete: bool, raw: bool, kind: &str) {
    ctx.count("inputs", 1);
    ctx.count(&format!("kind:{}", kind), 1);
    let witness = |extra: &str| {
        Obj::new()
            .s("input", src)
            .s("grammar", if gram == Gram::Sv { "sv" } else { "lib" })
            .b("allow_incomplete", incomplete)
            .b("raw_parser", raw)
            .s("kind", kind)
            .s("detail", extra)
            .done()
    };
    if raw {
        // raw parser path on directive-free text: the text parsed is the input itself
        use sv_parser_parser::{lib_parser, lib_parser_incomplete, sv_parser, sv_parser_incomplete, Span, SpanInfo};
        let span = Span::new_extra(src, SpanInfo::default());
        let r = lib(|| -> Result<Result<mon_tile::TileStats, String>, ()> {
            match (gram, incomplete) {
                (Gram::Sv, false) => sv_parser(span).map(|(_, t)| mon_tile::check_leaves(&t, src, true)).map_err(|_| ()),
                (Gram::Sv, true) => sv_parser_incomplete(span).map(|(_, t)| mon_tile::check_leaves(&t, src, false)).map_err(|_| ()),
                (Gram::Lib, false) => lib_parser(span).map(|(_, t)| mon_tile::check_leaves(&t, src, true)).map_err(|_| ()),
                (Gram::Lib, true) => lib_parser_incomplete(span).map(|(_, t)| mon_tile::check_leaves(&t, src, false)).map_err(|_| ()),
            }
        });
        match r {
            Err(p) => {
                ctx.inconclusive("lib_panic");
                ctx.count("lib_panics", 1);
                let _ = p;
            }
            Ok(Err(())) => ctx.count("rejected", 1),
            Ok(Ok(Ok(st))) => {
                ctx.count("trees", 1);
                ctx.count("trees_raw", 1);
                ctx.count("leaves", st.leaves);
                ctx.count("nodes", st.nodes);
                ctx.count("bytes", st.end as u64);
                ctx.nontrivial(hash_strs(&[src, "raw", if incomplete { "i" } else { "s" }]));
            }
            Ok(Ok(Err(msg))) => {
                ctx.violation("tiling-raw", "", &msg, witness(&msg));
            }
        }
        return;
    }
    // two-step entry so that the preprocessed text is known
    let cfg = Cfg { allow_incomplete: incomplete, ..Cfg::default() };
    let path = Path::new("c01.sv");
    let (pt, defs) = match pp_str(src, path, &cfg) {
        Err(_) => {
            ctx.inconclusive("lib_panic");
            ctx.count("lib_panics", 1);
            return;
        }
        Ok(Err(_)) => {
            ctx.count("pp_rejected", 1);
            return;
        }
        Ok(Ok(x)) => x,
    };
    let text = pt.text().to_string();
    let tree = match parse_pp(gram, pt, defs, incomplete) {
        Err(_) => {
            ctx.inconclusive("lib_panic");
            ctx.count("lib_panics", 1);
            return;
        }
        Ok(Err(_)) => {
            ctx.count("rejected", 1);
            return;
        }
        Ok(Ok((t, _))) => t,
    };
    ctx.count("trees", 1);
    if incomplete {
        ctx.count("trees_incomplete", 1);
    }
    match mon_tile::check_leaves(&tree, &text, !incomplete) {
        Err(msg) => {
            ctx.violation("tiling", "", &msg, witness(&format!("{} | preprocessed text: {:?}", msg, clip(&text, 400))));
            return;
        }
        Ok(mut st) => {
            if incomplete && st.end < text.len() {
                ctx.count("prefix_trees", 1);
            }
            let r = lib(|| mon_tile::check_get_str(&tree, &text, st.end, 2000, &mut st));
            match r {
                Err(p) => {
                    ctx.violation("get_str-panic", "", &p.0, witness(&p.0));
                }
                Ok(Err(msg)) => {
                    ctx.violation("get_str", "", &msg, witness(&msg));
                }
                Ok(Ok(())) => {}
            }
            ctx.count("leaves", st.leaves);
            ctx.count("nodes", st.nodes);
            ctx.count("nodes_get_str_checked", st.nodes_getstr_checked);
            ctx.count("bytes", st.end as u64);
            if text.bytes().any(|b| b >= 0x80) {
                ctx.count("trees_with_non_ascii", 1);
            }
            if text.contains('`') {
                ctx.count("trees_with_kept_directives", 1);
            }
            ctx.seen_kinds(&tree);
            ctx.nontrivial(hash_strs(&[src, if gram == Gram::Sv { "sv" } else { "lib" }, if incomplete { "i" } else { "s" }]));
            if ctx.want_sample() {
                ctx.sample(
                    Obj::new()
                        .s("input", &clip(src, 300))
                        .s("kind", kind)
                        .b("allow_incomplete", incomplete)
                        .n("leaves", st.leaves)
                        .n("nodes", st.nodes)
                        .n("tiled_bytes", st.end as u64)
                        .n("text_bytes", text.len() as u64)
                        .done(),
                );
            }
        }
    }
}
