//! C11 — returned define table is exact and threads across files as one unit.

use crate::api::*;
use crate::ctx::{Ctx, Tier};
use crate::gen_pp::{self, Gen, Item, PreDef};
use crate::mon_pp::Setup;
use crate::props::c04;
use crate::util::*;
use crate::Env;
use std::path::Path;

pub fn cases(tier: Tier) -> u64 {
    match tier {
        Tier::Quick => 160000,
        Tier::Thorough => 3000000,
        Tier::Tiny => 16,
    }
}

pub fn run_case(_env: &Env, ctx: &mut Ctx, idx: u64) {
    let mut rng = Rng::derive(ctx.seed, 11, idx, 0);
    if rng.chance(1, 3) {
        // (a) table exactness against the reference (formals, defaults, bodies, caller-supplied entries)
        let mut o = if rng.chance(1, 2) { c04::profile_c05(&mut rng) } else { c04::profile_c04(&mut rng) };
        o.misuse = false;
        o.predefined_names = false; // K2 belongs to C04
        ctx.count("table_exactness_cases", 1);
        c04::run_with(ctx, &mut rng, o, "C11");
        return;
    }
    threading(ctx, &mut rng);
}

fn has_line(items: &[Item]) -> bool {
    items.iter().any(|i| match i {
        Item::Line => true,
        Item::Cond { chain, els, .. } => chain.iter().any(|(_, b)| has_line(b)) || els.as_ref().map(|e| has_line(e)).unwrap_or(false),
        _ => false,
    })
}

fn threading(ctx: &mut Ctx, rng: &mut Rng) {
    let mut o = if rng.chance(1, 2) { c04::profile_c05(rng) } else { c04::profile_c04(rng) };
    o.misuse = rng.chance(1, 10);
    o.kept_directives = false; // no `begin_keywords left open across units
    o.sv_cov = false; // each run re-installs the SV_COV constants (set aside by the statement)
    o.predefined_names = false;
    let nfiles = rng.range(2, 3);
    let mut lr = rng.fork();
    let mut g = Gen::new(rng, o);
    g.misuse_budget = if g.o.misuse { 1 } else { 0 };
    let mut predefs = Vec::new();
    if g.r.chance(1, 3) {
        for n in ["A", "B", "C", "D"] {
            if g.r.chance(1, 3) {
                let uid = g.fresh("ext");
                predefs.push((n.to_string(), match g.r.below(3) {
                    0 => PreDef::Bare,
                    1 => PreDef::NoBody,
                    _ => PreDef::Body(uid),
                }));
            }
        }
    }
    let mut texts: Vec<String> = Vec::new();
    for k in 0..nfiles {
        if k > 0 {
            g.o.line_file = false; // `__LINE__ legitimately differs in later units
        }
        let n = g.r.range(2, 6);
        let items = g.block(1, n);
        if k > 0 && has_line(&items) {
            return;
        }
        let prog = gen_pp::Prog { files: vec![gen_pp::FileSrc { name: "u.sv".into(), items }], predefs: vec![] };
        let rd = gen_pp::render(&prog, &mut lr);
        // earlier files end outside any conditional, with `;` and a newline
        texts.push(format!("{};\n", rd.files[0].1.trim_end_matches(|c| c == ' ' || c == '\t')));
    }
    let path = Path::new("u.sv");
    let base = Setup::cfg_with_predefs(&gen_pp::Prog { files: vec![], predefs: predefs.clone() }, Cfg::default());
    ctx.count("threading_cases", 1);
    ctx.count("units", nfiles as u64);
    let witness = |d: &str| Obj::new().raw("units", &json_arr(texts.iter().map(|t| json_str(t)))).s("predefs", &format!("{:?}", predefs)).s("detail", d).done();
    // sequential runs feeding the table forward
    let mut defs = base.defs();
    let mut seq_text = String::new();
    let mut seq_err: Option<String> = None;
    for t in &texts {
        let d = defs.clone();
        let r = lib(|| sv_parser::preprocess_str(t, path, &d, &Vec::<std::path::PathBuf>::new(), false, false, 0, 0));
        match r {
            Err(_) => {
                ctx.inconclusive("lib_panic");
                return;
            }
            Ok(Err(e)) => {
                seq_err = Some(format!("{:?}", e));
                break;
            }
            Ok(Ok((pt, nd))) => {
                seq_text.push_str(pt.text());
                defs = nd;
            }
        }
    }
    let cat: String = texts.concat();
    let d0 = base.defs();
    let rc = lib(|| sv_parser::preprocess_str(&cat, path, &d0, &Vec::<std::path::PathBuf>::new(), false, false, 0, 0));
    match (rc, seq_err) {
        (Err(_), _) => ctx.inconclusive("lib_panic"),
        (Ok(Err(e)), Some(se)) => {
            ctx.count("both_error", 1);
            if format!("{:?}", e) != se {
                let m = format!("errors differ: unit by unit {}, concatenated {:?}", se, e);
                ctx.violation("threading-error", "", &m, witness(&m));
            }
        }
        (Ok(Err(e)), None) => {
            let m = format!("unit-by-unit run succeeds, concatenated run fails with {:?}", e);
            ctx.violation("threading-error", "", &m, witness(&m));
        }
        (Ok(Ok(_)), Some(se)) => {
            let m = format!("concatenated run succeeds, unit-by-unit run fails with {}", se);
            ctx.violation("threading-error", "", &m, witness(&m));
        }
        (Ok(Ok((pt, dcat))), None) => {
            ctx.count("both_ok", 1);
            if pt.text() != seq_text {
                let a = seq_text.as_bytes();
                let b = pt.text().as_bytes();
                let k = a.iter().zip(b.iter()).position(|(x, y)| x != y).unwrap_or(a.len().min(b.len()));
                let m = format!(
                    "output texts differ at byte {}: unit by unit {:?}, concatenated {:?}",
                    k,
                    clip(&String::from_utf8_lossy(&a[k.saturating_sub(20)..(k + 30).min(a.len())]), 80),
                    clip(&String::from_utf8_lossy(&b[k.saturating_sub(20)..(k + 30).min(b.len())]), 80)
                );
                ctx.violation("threading-text", "", &m, witness(&m));
            }
            let ta = canon_defines(&defs, false, true);
            let tb = canon_defines(&dcat, false, true);
            ctx.count("table_entries_compared", ta.len() as u64);
            if ta != tb {
                let m = format!("final tables differ (source positions aside): unit by unit {:?}, concatenated {:?}", ta.iter().map(|x| &x.0).collect::<Vec<_>>(), tb.iter().map(|x| &x.0).collect::<Vec<_>>());
                ctx.violation("threading-table", "", &m, witness(&m));
            } else if !ta.is_empty() {
                ctx.nontrivial(hash_str(&cat));
                if ctx.want_sample() {
                    ctx.sample(Obj::new().raw("units", &json_arr(texts.iter().map(|t| json_str(&clip(t, 200))))).n("table_entries", ta.len() as u64).done());
                }
            }
        }
    }
}
