//! C09 — recursion is bounded: cycles end in ExceedRecursiveLimit, legal depths work.

use crate::api::*;
use crate::ctx::{Ctx, Tier};
use crate::lexer;
use crate::util::*;
use crate::Env;
use std::path::{Path, PathBuf};
use sv_parser::Error;
use sv_parser_parser::verif_hooks as hooks;

const SWEEP: u64 = 80;
// families: 0 macro chain, 1 include chain, 2 macro cycle, 3 include cycle, 4 mixed chain, 5 macro->include cycle, 6 random mixes
pub fn cases(tier: Tier) -> u64 {
    match tier {
        Tier::Quick => SWEEP * 2 + 8 + 5 + 32 + 6 + 1500,
        Tier::Thorough => SWEEP * 2 + 8 + 5 + 32 + 6 + 40000,
        Tier::Tiny => 6,
    }
}

fn unwrap_include(e: &Error) -> (usize, &Error) {
    let mut d = 0;
    let mut cur = e;
    while let Error::Include { source } = cur {
        d += 1;
        cur = &**source;
    }
    (d, cur)
}

struct Case {
    family: &'static str,
    files: Vec<(String, String)>,
    top: String,
    /// Some(payload) = must succeed with exactly one payload token; None = must fail with ExceedRecursiveLimit
    expect_ok: Option<String>,
    payload_count: usize,
    /// expected number of Include wrappers when failing (None = do not care)
    wrappers: Option<usize>,
    param: String,
}

fn macro_chain(k: usize) -> Case {
    let mut s = String::from("`define M1 payload_tok\n");
    for i in 2..=k {
        s.push_str(&format!("`define M{} `M{}\n", i, i - 1));
    }
    s.push_str(&format!("x `M{} y\n", k));
    Case {
        family: "macro-chain",
        files: vec![("top.sv".into(), s)],
        top: "top.sv".into(),
        expect_ok: if k <= 64 { Some("payload_tok".into()) } else { None },
        wrappers: Some(0),
        payload_count: 2, // the kept `define line and the expansion
        param: format!("depth={}", k),
    }
}

fn include_chain(n: usize) -> Case {
    // n include levels below the top file
    let mut files = Vec::new();
    files.push(("f0.svh".to_string(), "payload_tok\n".to_string()));
    for i in 1..=n {
        files.push((format!("f{}.svh", i), format!("// level {}\n`include \"f{}.svh\"\n", i, i - 1)));
    }
    Case {
        family: "include-chain",
        top: format!("f{}.svh", n),
        files,
        expect_ok: if n <= 64 { Some("payload_tok".into()) } else { None },
        wrappers: Some(65),
        payload_count: 1,
        param: format!("levels={}", n),
    }
}

/// `include whose file name comes out of a macro chain of depth k (the name macro counts against the macro limit)
fn include_named_by_chain(k: usize) -> Case {
    let mut s = String::from("`define P1 \"f0.svh\"\n");
    for i in 2..=k {
        s.push_str(&format!("`define P{} `P{}\n", i, i - 1));
    }
    s.push_str(&format!("`include `P{}\nafter\n", k));
    Case {
        family: "include-named-by-macro-chain",
        files: vec![("top.sv".into(), s), ("f0.svh".into(), "payload_tok\n".into())],
        top: "top.sv".into(),
        expect_ok: if k <= 64 { Some("payload_tok".into()) } else { None },
        wrappers: Some(0),
        payload_count: 1,
        param: format!("depth={}", k),
    }
}

fn macro_cycle(len: usize) -> Case {
    let mut s = String::new();
    for i in 0..len {
        s.push_str(&format!("`define C{} x{} `C{}\n", i, i, (i + 1) % len));
    }
    s.push_str("`C0\n");
    Case { family: "macro-cycle", files: vec![("top.sv".into(), s)], top: "top.sv".into(), expect_ok: None, wrappers: Some(0), payload_count: 0, param: format!("len={}", len) }
}

fn include_cycle(len: usize) -> Case {
    let mut files = Vec::new();
    for i in 0..len {
        files.push((format!("c{}.svh", i), format!("t{}\n`include \"c{}.svh\"\n", i, (i + 1) % len)));
    }
    Case { family: "include-cycle", top: "c0.svh".into(), files, expect_ok: None, wrappers: Some(65), payload_count: 0, param: format!("len={}", len) }
}

fn mixed_chain(levels: usize, macro_depth: usize) -> Case {
    // every level: a macro chain of `macro_depth` whose innermost body is the `include of the next file
    let mut files = Vec::new();
    files.push(("m0.svh".to_string(), "payload_tok\n".to_string()));
    for i in 1..=levels {
        let mut s = format!("`define I{}_1 `include \"m{}.svh\"\n", i, i - 1);
        for d in 2..=macro_depth {
            s.push_str(&format!("`define I{}_{} `I{}_{}\n", i, d, i, d - 1));
        }
        s.push_str(&format!("`I{}_{}\n", i, macro_depth));
        files.push((format!("m{}.svh", i), s));
    }
    Case {
        family: "mixed-chain",
        top: format!("m{}.svh", levels),
        files,
        expect_ok: Some("payload_tok".into()),
        wrappers: None,
        payload_count: 1,
        param: format!("include_levels={} macro_depth={}", levels, macro_depth),
    }
}

fn macro_include_cycle(variant: usize) -> Case {
    let files = match variant % 3 {
        0 => vec![("a.svh".to_string(), "`define INC `include \"a.svh\"\n`INC\n".to_string())],
        1 => vec![
            ("a.svh".to_string(), "`define INCB `include \"b.svh\"\n`INCB\n".to_string()),
            ("b.svh".to_string(), "`define INCA `include \"a.svh\"\nw\n`INCA\n".to_string()),
        ],
        _ => vec![("a.svh".to_string(), "`define P \"a.svh\"\n`define INC2 `INC1\n`define INC1 `include `P\n`INC2\n".to_string())],
    };
    Case { family: "macro-include-cycle", top: "a.svh".into(), files, expect_ok: None, wrappers: Some(65), payload_count: 0, param: format!("variant={}", variant % 3) }
}

pub fn run_case(_env: &Env, ctx: &mut Ctx, idx: u64) {
    let mut rng = Rng::derive(ctx.seed, 9, idx, 0);
    let case = if ctx.tier == Tier::Tiny {
        match idx {
            0 => macro_chain(3),
            1 => include_chain(2),
            2 => macro_cycle(2),
            3 => include_cycle(1),
            4 => mixed_chain(2, 2),
            _ => macro_include_cycle(0),
        }
    } else if idx < SWEEP {
        macro_chain(idx as usize + 1)
    } else if idx < 2 * SWEEP {
        include_chain((idx - SWEEP) as usize + 1)
    } else if idx < 2 * SWEEP + 8 {
        macro_cycle((idx - 2 * SWEEP) as usize + 1)
    } else if idx < 2 * SWEEP + 13 {
        include_cycle((idx - 2 * SWEEP - 8) as usize + 1)
    } else if idx < 2 * SWEEP + 45 {
        let k = (idx - 2 * SWEEP - 13) as usize;
        mixed_chain(1 + k % 8 * 4, 1 + k / 8 * 5)
    } else if idx < 2 * SWEEP + 51 {
        macro_include_cycle((idx - 2 * SWEEP - 45) as usize)
    } else {
        match rng.below(7) {
            6 => include_named_by_chain(rng.range(55, 75)),
            0 => macro_chain(rng.range(1, 130)),
            1 => include_chain(rng.range(1, 130)),
            2 => macro_cycle(rng.range(1, 12)),
            3 => include_cycle(rng.range(1, 9)),
            4 => mixed_chain(rng.range(1, 30), rng.range(1, 30)),
            _ => macro_include_cycle(rng.below(3)),
        }
    };
    let dir: PathBuf = ctx.tmpdir.join(format!("c09-{}", idx));
    let _ = std::fs::create_dir_all(&dir);
    for (n, t) in &case.files {
        let _ = std::fs::write(dir.join(n), t);
    }
    let cfg = Cfg { include_paths: vec![dir.clone()], strip_comments: rng.chance(1, 4), ..Cfg::default() };
    // One case in three follows calls on the same thread that ended in an error (missing file, missing include,
    // recursion limit, not UTF-8): the budget of the measured call is its own, whatever the thread did before.
    if ctx.tier != Tier::Tiny && rng.chance(1, 3) {
        let k = *rng.pick(&[1usize, 2, 5, 20, 60]);
        let _ = std::fs::write(dir.join("nonutf8.svh"), [0xffu8, 0xfe]);
        for _ in 0..k {
            let _ = match rng.below(5) {
                0 => pp_file(&dir.join("no_such_top.sv"), &cfg).map(|_| ()),
                1 => pp_str("`include \"no_such_header.svh\"\n", &dir.join("e1.sv"), &cfg).map(|_| ()),
                2 => pp_str("`define R `R\n`R\n", &dir.join("e2.sv"), &cfg).map(|_| ()),
                3 => pp_str("`include \"nonutf8.svh\"\n", &dir.join("e3.sv"), &cfg).map(|_| ()),
                _ => pp_str("`define Q `include \"no_such_header.svh\"\n`Q\n", &dir.join("e4.sv"), &cfg).map(|_| ()),
            };
        }
        ctx.count("cases_after_failed_calls", 1);
        ctx.count("failed_calls_before_the_case", k as u64);
    }
    // logical bound instead of a wall clock: (64+2)^2 nested preprocess_str frames
    hooks::reset_pp_frames();
    hooks::set_pp_frame_bound(66 * 66);
    let top = dir.join(&case.top);
    // entry point: the preprocessor directly, or the parse entry points in front of it (strict / incomplete).
    // A parse entry either hands on the preprocessor's error or goes on to parse the text: for a legal depth its
    // result is Ok or Error::Parse (the payload is not a SystemVerilog description), never a recursion error.
    let entry = rng.below(8);
    let via_parse = entry >= 6;
    let r: Result<Result<(String, ()), Error>, LibPanic> = match entry {
        0..=3 => pp_file(&top, &cfg).map(|r| r.map(|(t, _)| (t.text().to_string(), ()))),
        4 | 5 => {
            let s = std::fs::read_to_string(&top).unwrap_or_default();
            pp_str(&s, &top, &cfg).map(|r| r.map(|(t, _)| (t.text().to_string(), ())))
        }
        6 => {
            let pc = Cfg { allow_incomplete: rng.chance(1, 2), strip_comments: false, ..cfg.clone() };
            ctx.count("cases_via_parse_sv", 1);
            parse_file(Gram::Sv, &top, &pc).map(|r| r.map(|_| (String::new(), ())))
        }
        _ => {
            let pc = Cfg { allow_incomplete: rng.chance(1, 2), strip_comments: false, ..cfg.clone() };
            ctx.count("cases_via_parse_sv_str", 1);
            let s = std::fs::read_to_string(&top).unwrap_or_default();
            parse_str(Gram::Sv, &s, &top, &pc).map(|r| r.map(|_| (String::new(), ())))
        }
    };
    let (_, high, frames) = hooks::pp_frames();
    hooks::set_pp_frame_bound(0);
    ctx.count("cases_run", 1);
    ctx.count(&format!("family:{}", case.family), 1);
    ctx.count("preprocess_str_frames", frames);
    ctx.max("frame_depth_high_water", high as u64);
    let witness = |d: &str| {
        Obj::new()
            .s("family", case.family)
            .s("param", &case.param)
            .raw("files", &json_arr(case.files.iter().take(6).map(|(n, t)| Obj::new().s("name", n).s("text", &clip(t, 300)).done())))
            .s("top", &case.top)
            .s("detail", d)
            .done()
    };
    match r {
        Err(p) => {
            let m = if p.0.contains(hooks::PP_BOUND_MARKER) {
                format!("{} ({}): runaway recursion — more than {} nested preprocess_str frames (unbounded; would overflow the stack)", case.family, case.param, 66 * 66)
            } else {
                format!("{} ({}): panic {}", case.family, case.param, p.0)
            };
            ctx.violation("runaway-recursion", &format!("{}", case.family), &m, witness(&m));
        }
        Ok(Ok((t, _))) if via_parse => match &case.expect_ok {
            Some(_) => ctx.count("legal_depths_ok", 1),
            None => {
                let m = format!("{} ({}): expected ExceedRecursiveLimit from the parse entry point, got Ok", case.family, case.param);
                ctx.violation("limit-not-enforced", "", &m, witness(&m));
            }
        },
        Ok(Err(Error::Parse(_))) if via_parse && case.expect_ok.is_some() => ctx.count("legal_depths_ok", 1),
        Ok(Ok((t, _))) => match &case.expect_ok {
            Some(payload) => {
                let toks = lexer::tokens(&t);
                let n = toks.iter().filter(|x| **x == payload.as_str()).count();
                if n != case.payload_count {
                    let m = format!("{} ({}): succeeded but the payload token occurs {} times in {:?}", case.family, case.param, n, clip(&t, 200));
                    ctx.violation("wrong-expansion", "", &m, witness(&m));
                } else {
                    ctx.count("legal_depths_ok", 1);
                }
            }
            None => {
                let m = format!("{} ({}): expected ExceedRecursiveLimit, got Ok({:?})", case.family, case.param, clip(&t, 120));
                ctx.violation("limit-not-enforced", "", &m, witness(&m));
            }
        },
        Ok(Err(e)) => {
            let (w, inner) = unwrap_include(&e);
            let is_limit = matches!(inner, Error::ExceedRecursiveLimit);
            match &case.expect_ok {
                Some(_) => {
                    let m = format!("{} ({}): legal depth failed with {} Include wrapper(s) around {:?}", case.family, case.param, w, inner);
                    ctx.violation("legal-depth-fails", "", &m, witness(&m));
                }
                None => {
                    if !is_limit {
                        let m = format!("{} ({}): expected ExceedRecursiveLimit, got {} wrapper(s) around {:?}", case.family, case.param, w, inner);
                        ctx.violation("wrong-error", "", &m, witness(&m));
                    } else if case.wrappers.map(|x| x != w).unwrap_or(false) {
                        let m = format!("{} ({}): ExceedRecursiveLimit wrapped {} times, expected {} (once per include level)", case.family, case.param, w, case.wrappers.unwrap());
                        ctx.violation("wrong-wrapping", "", &m, witness(&m));
                    } else {
                        ctx.count("limits_reported", 1);
                    }
                }
            }
        }
    }
    ctx.nontrivial(hash_strs(&[case.family, &case.param]));
    if ctx.want_sample() {
        ctx.sample(Obj::new().s("family", case.family).s("param", &case.param).n("frames", frames).n("high_water", high as u64).done());
    }
    let _ = std::fs::remove_dir_all(&dir);
    let _ = Path::new("");
}
