//! C10 — `include splices the named file with defines flowing in and out.

use crate::api::*;
use crate::ctx::{Ctx, Tier};
use crate::gen_pp;
use crate::lexer;
use crate::mon_pp::{self, Setup};
use crate::props::c04;
use crate::util::*;
use crate::Env;
use std::path::{Path, PathBuf};
use sv_parser::Error;

pub fn cases(tier: Tier) -> u64 {
    match tier {
        Tier::Quick => 160000,
        Tier::Thorough => 3000000,
        Tier::Tiny => 16,
    }
}

pub fn run_case(_env: &Env, ctx: &mut Ctx, idx: u64) {
    let mut rng = Rng::derive(ctx.seed, 10, idx, 0);
    let dir = ctx.tmpdir.join(format!("c10-{}", idx));
    let _ = std::fs::create_dir_all(&dir);
    match rng.below(10) {
        0..=2 => search_rule(ctx, &mut rng, &dir),
        3..=6 => include_graph(ctx, &mut rng, &dir),
        7 | 8 => same_line(ctx, &mut rng, &dir),
        _ => ignore_include(ctx, &mut rng, &dir),
    }
    let _ = std::fs::remove_dir_all(&dir);
}

fn unwrap_include(e: &Error) -> (usize, &Error) {
    let mut d = 0;
    let mut cur = e;
    while let Error::Include { source } = cur {
        d += 1;
        cur = &**source;
    }
    (d, cur)
}

/// which copy of a file is spliced: cwd first, then include paths in order, else Include{File{path as written}}
fn search_rule(ctx: &mut Ctx, rng: &mut Rng, dir: &Path) {
    let cwd = dir.join("cwd");
    let inc = [dir.join("inc1"), dir.join("inc2"), dir.join("inc3")];
    let _ = std::fs::create_dir_all(&cwd);
    for d in &inc {
        let _ = std::fs::create_dir_all(d);
    }
    let deeper = rng.chance(1, 4);
    let name = if deeper { "sub/x.svh" } else { "x.svh" };
    let mut present = Vec::new(); // (location label, payload)
    let locs: Vec<(String, PathBuf)> = vec![
        ("cwd".into(), cwd.clone()),
        ("inc1".into(), inc[0].clone()),
        ("inc2".into(), inc[1].clone()),
        ("inc3".into(), inc[2].clone()),
    ];
    for (label, d) in &locs {
        if rng.chance(2, 5) {
            let p = d.join(name);
            if let Some(pp) = p.parent() {
                let _ = std::fs::create_dir_all(pp);
            }
            let payload = format!("from_{}", label);
            let _ = std::fs::write(&p, format!("{}\n", payload));
            present.push((label.clone(), payload));
        }
    }
    // include path order: a random permutation of a random subset of the three directories
    let mut order: Vec<usize> = vec![0, 1, 2];
    for i in (1..3).rev() {
        let j = rng.below(i + 1);
        order.swap(i, j);
    }
    let n = rng.range(0, 3);
    let order: Vec<usize> = order.into_iter().take(n).collect();
    let include_paths: Vec<PathBuf> = order.iter().map(|i| inc[*i].clone()).collect();
    let absolute = rng.chance(1, 8);
    let written = if absolute { inc[2].join(name).to_string_lossy().to_string() } else { name.to_string() };
    let style = rng.below(3);
    let src = match style {
        0 => format!("before\n`include \"{}\"\nafter\n", written),
        1 => format!("before\n`include <{}>\nafter\n", written),
        _ => format!("`define F \"{}\"\nbefore\n`include `F\nafter\n", written),
    };
    let _ = std::fs::write(cwd.join("top.sv"), &src);
    // expectation
    // (payload, label of the copy that has to be spliced) or the path that has to be reported missing
    let expect = |present: &Vec<(String, String)>| -> Result<(String, String), String> {
        let has = |label: &str| present.iter().find(|(l, _)| l == label).map(|(l, p)| (p.clone(), l.clone()));
        if absolute {
            has("inc3").ok_or(written.clone())
        } else if let Some(p) = has("cwd") {
            Ok(p)
        } else {
            let mut r = Err(written.clone());
            for i in &order {
                if let Some(p) = has(&format!("inc{}", i + 1)) {
                    r = Ok(p);
                    break;
                }
            }
            r
        }
    };
    let expected_full = expect(&present);
    let expected: Result<String, String> = expected_full.clone().map(|x| x.0);
    // the cwd rule needs the process to stand in `cwd`
    let old = std::env::current_dir().ok();
    let _ = std::env::set_current_dir(&cwd);
    let cfg = Cfg { include_paths: include_paths.clone(), ..Cfg::default() };
    let r = if rng.chance(1, 2) { pp_file(Path::new("top.sv"), &cfg) } else { pp_str(&src, Path::new("top.sv"), &cfg) };
    if let Some(o) = old {
        let _ = std::env::set_current_dir(o);
    }
    ctx.count("search_rule_cases", 1);
    ctx.seen("search_configs", &format!("present={:?} order={:?} abs={} deeper={} style={}", present.iter().map(|x| x.0.as_str()).collect::<Vec<_>>(), order, absolute, deeper, style));
    let witness = |d: &str| {
        Obj::new()
            .s("top", &src)
            .s("present_in", &format!("{:?}", present))
            .s("include_path_order", &format!("{:?}", include_paths))
            .s("detail", d)
            .done()
    };
    match (r, expected) {
        (Err(_), _) => ctx.inconclusive("lib_panic"),
        (Ok(Ok((t, _))), Ok(p)) => {
            let toks = lexer::tokens(t.text());
            let froms: Vec<&&str> = toks.iter().filter(|x| x.starts_with("from_")).collect();
            if froms.len() == 1 && **froms[0] == *p.as_str() && toks.contains(&"before") && toks.contains(&"after") {
                ctx.count("search_rule_agree", 1);
                ctx.nontrivial(hash_strs(&[&src, &format!("{:?}{:?}", present, order)]));
            } else {
                let m = format!("expected the copy {} to be spliced, output is {:?}", p, clip(t.text(), 200));
                ctx.violation("wrong-file", "", &m, witness(&m));
            }
        }
        (Ok(Ok((t, _))), Err(w)) => {
            let m = format!("file {} is nowhere, expected Include{{File}}, got Ok({:?})", w, clip(t.text(), 100));
            ctx.violation("missing-file-accepted", "", &m, witness(&m));
        }
        (Ok(Err(e)), Ok(p)) => {
            let m = format!("expected the copy {} to be spliced, got error {:?}", p, e);
            ctx.violation("wrong-file", "", &m, witness(&m));
        }
        (Ok(Err(e)), Err(w)) => {
            let (d, inner) = unwrap_include(&e);
            let ok = d == 1 && matches!(inner, Error::File { path, .. } if path == &PathBuf::from(&w));
            if ok {
                ctx.count("search_rule_agree", 1);
                ctx.count("missing_file_errors", 1);
                ctx.nontrivial(hash_strs(&[&src, "missing"]));
            } else {
                let m = format!("file found nowhere: expected Include{{File{{{:?}}}}}, got {:?}", w, e);
                ctx.violation("wrong-error-shape", "", &m, witness(&m));
            }
        }
    }
    // Second call on the same thread after the file system changed: the copy that was spliced is rewritten in
    // place (other contents, same length) or removed.  The directive names a file, not what the file held or
    // where it was found the last time.
    if let Ok((_, label)) = expected_full {
        let d = &locs.iter().find(|(l, _)| *l == label).unwrap().1;
        let mut present2 = present.clone();
        let removed = rng.chance(1, 3);
        if removed {
            let _ = std::fs::remove_file(d.join(name));
            present2.retain(|(l, _)| *l != label);
        } else {
            let np = format!("from_{}", label.to_uppercase());
            let _ = std::fs::write(d.join(name), format!("{}\n", np));
            for e in present2.iter_mut() {
                if e.0 == label {
                    e.1 = np.clone();
                }
            }
        }
        let expected2 = expect(&present2).map(|x| x.0);
        let old = std::env::current_dir().ok();
        let _ = std::env::set_current_dir(&cwd);
        let r2 = if rng.chance(1, 2) { pp_file(Path::new("top.sv"), &cfg) } else { pp_str(&src, Path::new("top.sv"), &cfg) };
        if let Some(o) = old {
            let _ = std::env::set_current_dir(o);
        }
        ctx.count(if removed { "search_rule_second_call_after_removal" } else { "search_rule_second_call_after_rewrite" }, 1);
        let what = if removed { "removed" } else { "rewritten in place" };
        let good = match (&r2, &expected2) {
            (Err(_), _) => {
                ctx.inconclusive("lib_panic");
                true
            }
            (Ok(Ok((t, _))), Ok(p)) => {
                let toks = lexer::tokens(t.text());
                let froms: Vec<&&str> = toks.iter().filter(|x| x.to_lowercase().starts_with("from_")).collect();
                froms.len() == 1 && **froms[0] == *p.as_str()
            }
            (Ok(Err(e)), Err(w)) => {
                let (dd, inner) = unwrap_include(e);
                dd == 1 && matches!(inner, Error::File { path, .. } if path == &PathBuf::from(w))
            }
            _ => false,
        };
        if !good {
            let got = match &r2 {
                Ok(Ok((t, _))) => format!("Ok({:?})", clip(t.text(), 200)),
                Ok(Err(e)) => format!("{:?}", e),
                Err(_) => String::new(),
            };
            let m = format!("second call on the same thread after the spliced copy ({}) was {}: expected {:?}, got {}", label, what, expected2, got);
            ctx.violation("stale-include", "", &m, witness(&m));
        }
    }
}

/// random include graphs with defines flowing in and out, against the reference semantics
fn include_graph(ctx: &mut Ctx, rng: &mut Rng, dir: &Path) {
    let mut o = c04::profile_c04(rng);
    o.max_depth = 3;
    o.misuse = false;
    o.sv_cov = false;
    o.predefined_names = false; // K2 belongs to C04
    let mut prog = gen_pp::multi_file(rng, o, 4);
    // sometimes the last include target does not exist
    let missing = rng.chance(1, 8);
    if missing {
        prog.files[0].items.push(gen_pp::Item::Include { name: "nowhere.svh".into(), style: 0 });
    }
    let rendered = gen_pp::render(&prog, rng);
    let cfg = Cfg { include_paths: vec![dir.to_path_buf()], ..Cfg::default() };
    let setup = Setup { prog, rendered, dir: Some(dir.to_path_buf()), cfg, top: 0 };
    setup.write_files();
    ctx.count("include_graph_cases", 1);
    ctx.count("files", setup.prog.files.len() as u64);
    c04::check_setup(ctx, &setup, "C10");
    let _ = mon_pp::classify_error;
}

const EXTRAS: &[(&str, bool)] = &[
    // (text, is white space or comment)
    ("tok", false),
    ("\"str\"", false),
    ("\\esc ", false),
    ("`celldefine", false),
    ("`define ZZ 1", false),
    ("`KNOWN", false),
    ("`include \"g.svh\"", false),
    ("/* c */", true),
    ("/* multi\nline */", true),
    ("   ", true),
    ("\t", true),
    (";", false),
    ("123", false),
];

fn same_line(ctx: &mut Ctx, rng: &mut Rng, dir: &Path) {
    let _ = std::fs::write(dir.join("f.svh"), "inc_payload\n");
    let _ = std::fs::write(dir.join("g.svh"), "g_payload\n");
    let before = rng.chance(1, 2);
    let (mut extra, mut neutral) = *rng.pick(EXTRAS);
    if before && extra.starts_with("`define") {
        // a `define in front would swallow the rest of the line into its body
        extra = "tok";
        neutral = false;
    }
    let trailing_line_comment = !before && rng.chance(1, 6);
    let mut src = String::from("`define KNOWN 7\nfirst\n");
    let inc = if rng.chance(1, 2) { "`include \"f.svh\"" } else { "`include <f.svh>" };
    if trailing_line_comment {
        src.push_str(&format!("{} // c\nnext\n", inc));
        neutral = true;
    } else if before {
        // an item that starts on an earlier line but ends on the directive's line counts as sharing it
        let multi = rng.chance(1, 4) && !neutral;
        if multi {
            src.push_str(&format!("x\n{} {}\nnext\n", extra, inc));
        } else {
            src.push_str(&format!("{}{}{}\nnext\n", extra, if extra.ends_with(' ') { "" } else { " " }, inc));
        }
    } else {
        let nl_after = rng.chance(1, 3) && neutral;
        if nl_after {
            // only a comment shares the line; the next item starts on a later line
            src.push_str(&format!("{} {}\n next\n", inc, extra));
        } else {
            src.push_str(&format!("{} {}\nnext\n", inc, extra));
        }
    }
    let cfg = Cfg { include_paths: vec![dir.to_path_buf()], ..Cfg::default() };
    let r = pp_str(&src, &dir.join("top.sv"), &cfg);
    ctx.count("same_line_cases", 1);
    ctx.seen("same_line_extras", &format!("{}:{:?}", if before { "before" } else { "after" }, extra));
    let witness = |d: &str| Obj::new().s("top", &src).s("detail", d).done();
    match r {
        Err(_) => ctx.inconclusive("lib_panic"),
        Ok(Ok((t, _))) => {
            if neutral {
                if lexer::tokens(t.text()).contains(&"inc_payload") {
                    ctx.count("same_line_agree", 1);
                    ctx.nontrivial(hash_str(&src));
                } else {
                    let m = "include accepted but the file's tokens are missing".to_string();
                    ctx.violation("same-line", "", &m, witness(&m));
                }
            } else {
                let m = format!("`include shares its line with {:?} but is accepted", extra);
                ctx.violation("same-line-not-enforced", &format!("D6:accepted:{}", extra_class(extra, before)), &m, witness(&m));
            }
        }
        Ok(Err(e)) => {
            if !neutral && matches!(e, Error::IncludeLine) {
                ctx.count("same_line_agree", 1);
                ctx.count("include_line_errors", 1);
                ctx.nontrivial(hash_str(&src));
            } else if neutral {
                let m = format!("`include shares its line only with white space / a comment ({:?}) but is rejected with {:?}", extra, e);
                ctx.violation("same-line-over-enforced", "D6:rejected:comment", &m, witness(&m));
            } else {
                let m = format!("expected IncludeLine, got {:?}", e);
                ctx.violation("same-line", "", &m, witness(&m));
            }
        }
    }
}

fn extra_class(extra: &str, before: bool) -> String {
    let k = if extra.starts_with('"') {
        "string"
    } else if extra.starts_with('\\') {
        "escaped-identifier"
    } else if extra.starts_with('`') {
        "directive"
    } else {
        "token"
    };
    format!("{}-{}", k, if before { "before" } else { "after" })
}

/// with ignore_include no file is read and a literal-named directive contributes no tokens
fn ignore_include(ctx: &mut Ctx, rng: &mut Rng, dir: &Path) {
    // targets do not exist, so any read attempt surfaces as an error
    let mut src = String::from("a1\n");
    let n = rng.range(1, 3);
    let mut macro_named = false;
    for i in 0..n {
        match rng.below(4) {
            0 => src.push_str(&format!("`include \"ghost{}.svh\"\n", i)),
            1 => src.push_str(&format!("`include <ghost{}.svh>\n", i)),
            2 => src.push_str(&format!("`include \"ghost{}.svh\" // c\n", i)),
            _ => {
                macro_named = true;
                src.push_str(&format!("`define G{} \"ghost{}.svh\"\n`include `G{}\n", i, i, i));
            }
        }
        src.push_str(&format!("b{}\n", i));
    }
    let via_macro_body = rng.chance(1, 5);
    if via_macro_body {
        // a macro whose body is an `include (C09's "macros that expand to includes")
        src.push_str("`define INC `include \"ghost_m.svh\"\n`INC\nz9\n");
    }
    let cfg = Cfg { include_paths: vec![dir.to_path_buf()], ignore_include: true, ..Cfg::default() };
    // the flag must be honoured by every entry point that takes it: the parse_* family forwards it
    {
        let _ = std::fs::write(dir.join("present.svh"), "module ghost_module; endmodule\n");
        let which = rng.below(3);
        let target = if rng.chance(1, 2) { "present.svh" } else { "absent.svh" };
        let sv = format!("module a1; endmodule\n`include \"{}\"\nmodule b1; endmodule\n", target);
        let top = dir.join("ptop.sv");
        let _ = std::fs::write(&top, &sv);
        let r = match which {
            0 => parse_str(Gram::Sv, &sv, &top, &cfg),
            1 => parse_file(Gram::Sv, &top, &cfg),
            _ => parse_str(Gram::Sv, &sv, &top, &Cfg { allow_incomplete: true, ..cfg.clone() }),
        };
        ctx.count("ignore_include_parse_cases", 1);
        let w = Obj::new().s("top", &sv).s("entry", ["parse_sv_str", "parse_sv", "parse_sv_str(incomplete)"][which]).s("target", target).done();
        match r {
            Err(_) => ctx.inconclusive("lib_panic"),
            Ok(Err(e)) => {
                let m = format!("ignore_include = true but {} fails with {:?}", ["parse_sv_str", "parse_sv", "parse_sv_str(incomplete)"][which], e);
                ctx.violation("ignore-include-reads", "", &m, w);
            }
            Ok(Ok((t, _))) => {
                let mut names = Vec::new();
                for n in &t {
                    if let sv_parser::RefNode::ModuleIdentifier(_) = n {
                        names.push(t.get_str(vec![n.clone()]).unwrap_or("").trim().to_string());
                    }
                }
                if names.iter().any(|n| n == "ghost_module") || !names.iter().any(|n| n == "a1") || !names.iter().any(|n| n == "b1") {
                    let m = format!("ignore_include = true but the tree has modules {:?} (the included file was spliced in)", names);
                    ctx.violation("ignore-include-tokens", "", &m, w);
                } else {
                    ctx.count("ignore_include_parse_agree", 1);
                }
            }
        }
    }
    let r = pp_str(&src, &dir.join("top.sv"), &cfg);
    ctx.count("ignore_include_cases", 1);
    let witness = |d: &str| Obj::new().s("top", &src).s("detail", d).done();
    match r {
        Err(_) => ctx.inconclusive("lib_panic"),
        Ok(Err(e)) => {
            let m = format!("ignore_include = true but the run fails with {:?} (a file was looked for)", e);
            ctx.violation("ignore-include-reads", if via_macro_body { "D7" } else { "" }, &m, witness(&m));
        }
        Ok(Ok((t, _))) => {
            let toks = lexer::tokens(t.text());
            let payload: Vec<&&str> = toks.iter().filter(|x| x.starts_with("ghost")).collect();
            // literal-named directives contribute no tokens at all: output tokens are a1, b*, z9 and kept `define text
            let mut ok = toks.contains(&"a1");
            let _ = payload;
            if !macro_named && !via_macro_body {
                ok = ok && toks.iter().all(|x| *x == "a1" || x.starts_with('b'));
            }
            if ok {
                ctx.count("ignore_include_agree", 1);
                ctx.nontrivial(hash_str(&src));
            } else {
                let m = format!("with ignore_include a literal-named `include contributed tokens: {:?}", clip(t.text(), 200));
                ctx.violation("ignore-include-tokens", "", &m, witness(&m));
            }
        }
    }
}
