//! C20 — file, string and two-step entry points agree.

use crate::api::*;
use crate::ctx::{Ctx, Tier};
use crate::gen_pp;
use crate::mutate;
use crate::props::c04;
use crate::util::*;
use crate::workload;
use crate::Env;
use sv_parser::Error;

pub fn cases(tier: Tier) -> u64 {
    match tier {
        Tier::Quick => 20000,
        Tier::Thorough => 400000,
        Tier::Tiny => 12,
    }
}

fn canon_pp_res(r: Result<Result<(sv_parser::PreprocessedText, Defs), Error>, LibPanic>) -> PpCanon {
    canon_pp(r)
}

pub fn run_case(env: &Env, ctx: &mut Ctx, idx: u64) {
    let mut rng = Rng::derive(ctx.seed, 20, idx, 0);
    let dir = ctx.tmpdir.join(format!("c20-{}", idx));
    let _ = std::fs::create_dir_all(&dir);
    // an included file that defines a macro used later, so that swapping the two booleans of preprocess() is visible
    let _ = std::fs::write(dir.join("defs.svh"), "// defs\n`define FROM_INC(x) (x + 1) /* k */\n`define WIDTH 8\n");
    let _ = std::fs::write(dir.join("bad.svh"), [0xffu8, 0xfe, b'a']);
    let mut gram = Gram::Sv;
    let kind;
    let body: String = match rng.below(10) {
        0..=2 => {
            kind = "tree-input";
            let i = workload::tree_input(env, &mut rng);
            gram = i.gram;
            i.text
        }
        3 | 4 => {
            kind = "include+comment+macro";
            let p = env.corpus.pick_program(&mut rng).to_string();
            format!("// header comment\n`include \"defs.svh\"\nmodule __c20; /* c */ localparam W = `WIDTH; assign a = `FROM_INC(b); endmodule\n{}", p)
        }
        5 => {
            kind = "gpp";
            let o = c04::profile_c05(&mut rng);
            let prog = gen_pp::single_file(&mut rng, o, 6);
            gen_pp::render_opt(&prog, &mut rng, true).files[0].1.clone()
        }
        6 => {
            kind = "rejected";
            mutate::token_mutate(env.corpus.pick_program(&mut rng), &mut rng)
        }
        7 => {
            kind = "file-fault";
            format!("module a; endmodule\n`include \"{}\"\n", rng.pick(&["missing.svh", "bad.svh", "."]))
        }
        8 => {
            kind = "lib";
            gram = Gram::Lib;
            format!("// c\n{}", workload::lib_text(&mut rng))
        }
        _ => {
            kind = "junk-suffix";
            format!("{}\n§ junk", env.corpus.pick_program(&mut rng))
        }
    };
    // hostile edges: what an editor, a language server or a reader might want to "clean" on one route only
    // (byte order mark, NUL, Ctrl-Z, lone CR, missing final newline)
    let mut body = body;
    if rng.chance(1, 8) {
        body = format!("{}{}", rng.pick(&["\u{feff}", "\u{feff}\n", "\u{feff}\u{feff}", "\0", "\r", "\u{1a}", "\n\n", "\u{2028}"]), body);
        ctx.count("inputs_with_edge_prefix", 1);
    }
    if rng.chance(1, 8) {
        if rng.chance(1, 3) {
            body = body.trim_end().to_string();
        } else {
            body.push_str(*rng.pick(&["\u{feff}", "\0", "\u{1a}", "\r", " ", "\r\n\r\n", "\\"]));
        }
        ctx.count("inputs_with_edge_suffix", 1);
    }
    let path = dir.join("top.sv");
    // one case in three: the file is afterwards rewritten in place (same path, same length, other contents)
    // and the whole comparison repeated on the same thread
    let second: Option<String> = if rng.chance(1, 3) { mutate::same_length_edit(&body, &mut rng) } else { None };
    let mut rounds = vec![body];
    if let Some(b2) = second {
        rounds.push(b2);
        ctx.count("inputs_rewritten_in_place", 1);
    }
    let nrounds = rounds.len();
    for (round, body) in rounds.into_iter().enumerate() {
    let _ = std::fs::write(&path, &body);
    let mut defines = Vec::new();
    if rng.chance(1, 3) {
        defines.push(("A".to_string(), None));
        defines.push(("WIDTH2".to_string(), Some((vec![], Some("4".to_string())))));
    }
    // include paths: usually the directory of the file; sometimes none or an unrelated one, so that a header that
    // sits next to the source is reachable only if an entry point (wrongly) searches the source's own directory
    let inc_paths: Vec<std::path::PathBuf> = match rng.below(5) {
        0 => vec![],
        1 => vec![dir.join("elsewhere")],
        _ => vec![dir.clone()],
    };
    ctx.count("inputs", 1);
    if round == 0 && inc_paths.first() != Some(&dir) {
        ctx.count("inputs_with_unreachable_header", 1);
    }
    ctx.count(&format!("kind:{}", kind), 1);
    let witness = |d: &str, cfg: &Cfg| Obj::new().s("contents", &body).s("kind", kind).n("round", round as u64).n("rounds", nrounds as u64).raw("config", &cfg.json()).s("detail", d).done();
    let mut comparisons = 0u64;
    // parse family: all values of ignore_include x allow_incomplete
    for ii in [false, true] {
        for ai in [false, true] {
            let cfg = Cfg { defines: defines.clone(), include_paths: inc_paths.clone(), ignore_include: ii, allow_incomplete: ai, strip_comments: false };
            let a = canon_parse(parse_file(gram, &path, &cfg));
            let b = canon_parse(parse_str(gram, &body, &path, &cfg));
            let c = match pp_file(&path, &cfg) {
                Err(p) => ParseCanon::Panic(p.0),
                Ok(Err(e)) => ParseCanon::Err(format!("{:?}", e)),
                Ok(Ok((t, d))) => canon_parse(parse_pp(gram, t, d, ai)),
            };
            let d = match pp_str(&body, &path, &cfg) {
                Err(p) => ParseCanon::Panic(p.0),
                Ok(Err(e)) => ParseCanon::Err(format!("{:?}", e)),
                Ok(Ok((t, d))) => canon_parse(parse_pp(gram, t, d, ai)),
            };
            comparisons += 3;
            for (name, x) in [("parse_*_str(contents, path)", &b), ("preprocess(path) + parse_*_pp", &c), ("preprocess_str + parse_*_pp", &d)] {
                if *x != a {
                    let m = format!(
                        "parse_{}(path) = {} but {} = {} (ignore_include={}, allow_incomplete={})",
                        if gram == Gram::Sv { "sv" } else { "lib" },
                        a.brief(),
                        name,
                        x.brief(),
                        ii,
                        ai
                    );
                    ctx.violation("parse-family-disagrees", "", &m, witness(&m, &cfg));
                }
            }
            if a.is_ok() {
                ctx.count("accepted_configs", 1);
            }
        }
    }
    // preprocess pair: all four (strip_comments, ignore_include) combinations
    let mut outs: Vec<PpCanon> = Vec::new();
    for sc in [false, true] {
        for ii in [false, true] {
            let cfg = Cfg { defines: defines.clone(), include_paths: inc_paths.clone(), ignore_include: ii, allow_incomplete: false, strip_comments: sc };
            let a = canon_pp_res(pp_file(&path, &cfg));
            let b = canon_pp_res(pp_str(&body, &path, &cfg));
            comparisons += 1;
            if a != b {
                let m = format!("preprocess(path) = {} but preprocess_str(contents, path) = {} (strip_comments={}, ignore_include={})", a.brief(), b.brief(), sc, ii);
                ctx.violation("preprocess-pair-disagrees", "", &m, witness(&m, &cfg));
            }
            outs.push(a);
        }
    }
    // sensitivity of the input: do the four flag combinations give pairwise different results?
    if kind == "include+comment+macro" && inc_paths.first() == Some(&dir) {
        // (strip, ignore): outs = [(F,F), (F,T), (T,F), (T,T)]; a swap of the two flags maps (T,F) onto (F,T)
        let distinct = outs[1] != outs[2] && outs[0] != outs[2] && outs[0] != outs[1];
        if distinct {
            ctx.count("flag_sensitive_inputs", 1);
        }
    }
    ctx.count("comparisons", comparisons);
    ctx.nontrivial(hash_strs(&[&body, kind]));
    if ctx.want_sample() {
        ctx.sample(Obj::new().s("contents", &clip(&body, 300)).s("kind", kind).n("comparisons", comparisons).done());
    }
    }
    let _ = std::fs::remove_dir_all(&dir);
}
