//! C07 — results depend only on the arguments, not on what the thread did before.

use crate::ctx::{Ctx, Tier};
use crate::mon_hist::*;
use crate::mutate;
use crate::util::*;
use crate::Env;
use sv_parser_parser::verif_hooks as hooks;

pub fn cases(tier: Tier) -> u64 {
    match tier {
        Tier::Quick => 24000,
        Tier::Thorough => 500000,
        Tier::Tiny => 8,
    }
}

fn pick_src(env: &Env, rng: &mut Rng) -> String {
    match rng.below(10) {
        0..=2 => rng.pick(POLLUTERS).to_string(),
        3 => mutate::token_mutate(env.corpus.pick_program(rng), rng),
        4 => mutate::byte_mutate(env.corpus.pick_program(rng), rng),
        5 => crate::workload::lib_text(rng),
        6 => rng.pick(PROBES).to_string(),
        7 => rng.pick(INCLUDERS).to_string(),
        _ => env.corpus.pick_program(rng).to_string(),
    }
}

pub fn run_case(env: &Env, ctx: &mut Ctx, idx: u64) {
    let mut rng = Rng::derive(ctx.seed, 7, idx, 0);
    // files for the path-based entry points
    let dir = ctx.tmpdir.join(format!("c07-{}", idx));
    let _ = std::fs::create_dir_all(&dir);
    let inc = dir.join("inc.svh");
    let _ = std::fs::write(&inc, "`define FROM_INC 1\n`begin_keywords \"1364-2001\"\n");
    let top = dir.join("top.sv");
    let _ = std::fs::write(&top, "`include \"inc.svh\"\nmodule m; wire logic; endmodule\n");
    let cyc = dir.join("cyc.sv");
    let _ = std::fs::write(&cyc, "`include \"cyc.sv\"\n");
    // two further include directories that hold different files under the same names
    let (da, db) = (dir.join("a"), dir.join("b"));
    let _ = std::fs::create_dir_all(&da);
    let _ = std::fs::create_dir_all(&db);
    let _ = std::fs::write(da.join("inc.svh"), "`define W 8\n");
    let _ = std::fs::write(db.join("inc.svh"), "`define W 16\n`define FROM_B\n");
    let _ = std::fs::write(da.join("only_a.svh"), "`define ONLY_A\n");
    let _ = std::fs::write(db.join("only_b.svh"), "wire only_b;\n");
    let path_sets: Vec<Vec<std::path::PathBuf>> = vec![
        vec![dir.clone()],
        vec![da.clone()],
        vec![db.clone()],
        vec![da.clone(), db.clone()],
        vec![db.clone(), da.clone()],
        vec![],
        vec![dir.clone(), db.clone()],
    ];

    let k = rng.range(1, if ctx.tier == Tier::Quick { 8 } else { 12 });
    let mut rb = RawBuf::new();
    let mut hist: Vec<Call> = Vec::new();
    let mk = |rng: &mut Rng, src: String| -> Call {
        let r = rng.below(100);
        if r < 6 {
            let p = if rng.chance(1, 2) { top.clone() } else { cyc.clone() };
            Call { entry: if rng.chance(1, 2) { Entry::PpFile } else { Entry::ParseSvFile }, src: String::new(), path: Some(p), include_paths: vec![dir.clone()] }
        } else {
            let ip = if rng.chance(1, 2) { vec![dir.clone()] } else { rng.pick(&path_sets).clone() };
            Call { entry: *rng.pick(ENTRIES), src, path: None, include_paths: ip }
        }
    };
    for _ in 0..k {
        let src = pick_src(env, &mut rng);
        let c = mk(&mut rng, src);
        let _ = exec(&c, &mut rb);
        hist.push(c);
    }
    let mut repeated = 0usize;
    if rng.chance(1, 12) {
        // accumulation: one small failing call repeated many times (a counter that leaks one per failure, a stack
        // that grows by one per open region, needs many of them before a later call notices)
        let src = rng.pick(POLLUTERS).to_string();
        let c = mk(&mut rng, src);
        let n = *rng.pick(&[3usize, 10, 70, 130, 300]);
        for _ in 0..n {
            let _ = exec(&c, &mut rb);
        }
        repeated = n;
        ctx.count("histories_with_a_repeated_failing_call", 1);
        ctx.count("repeated_failing_calls", n as u64);
        hist.push(c);
    }
    // probe: a sensitive probe, a corpus program, or a repetition of an earlier call
    let last_raw = hist.iter().rev().find(|c| matches!(c.entry, Entry::RawSv | Entry::RawSvIncomplete | Entry::RawLib | Entry::RawPp)).cloned();
    let probe = match rng.below(11) {
        10 if last_raw.is_some() => {
            // the buffer of the last raw call overwritten in place: same address, same length, other text
            let l = last_raw.unwrap();
            ctx.count("probes_editing_the_buffer_in_place", 1);
            match mutate::same_length_edit(&l.src, &mut rng) {
                Some(e) => Call { entry: *rng.pick(&[Entry::RawSv, Entry::RawSvIncomplete, Entry::RawLib, Entry::RawPp]), src: e, ..l },
                None => l,
            }
        }
        0..=2 => {
            let s = rng.pick(PROBES).to_string();
            mk(&mut rng, s)
        }
        3 => {
            let s = rng.pick(INCLUDERS).to_string();
            mk(&mut rng, s)
        }
        4 | 5 => hist[rng.below(hist.len())].clone(),
        _ => {
            let s = pick_src(env, &mut rng);
            mk(&mut rng, s)
        }
    };
    let snap = hooks::snapshot();
    let dirty = snap.memo_entries > 0 || snap.directive_depth > 0 || !snap.version_stack.is_empty();
    ctx.count("histories", 1);
    if hist.iter().any(|c| c.include_paths != probe.include_paths) {
        ctx.count("probes_after_calls_with_other_include_paths", 1);
    }
    ctx.count("history_calls", k as u64);
    if dirty {
        ctx.count("probes_on_dirty_state", 1);
    }
    if snap.directive_depth > 0 {
        ctx.count("probes_with_directive_residue", 1);
    }
    if !snap.version_stack.is_empty() {
        ctx.count("probes_with_version_residue", 1);
    }
    ctx.seen(
        "residue_states",
        &format!("memo={} directive_depth={} versions={:?}", if snap.memo_entries > 0 { ">0" } else { "0" }, snap.directive_depth.min(3), snap.version_stack),
    );
    let before = rb.reuse_hits;
    let got = exec(&probe, &mut rb);
    if rb.reuse_hits > before {
        ctx.count("probes_at_reused_address", 1);
    }
    ctx.count("address_reuse_hits", rb.reuse_hits);
    let fresh = exec_fresh(&probe);
    if got != fresh {
        let m = format!("probe {:?} after a history of {} calls returns {} but {} on a fresh thread", probe.entry, k, got.brief(), fresh.brief());
        let w = Obj::new()
            .raw("history", &json_arr(hist.iter().map(|c| c.json())))
            .raw("probe", &probe.json())
            .s("probe_src_full", &probe.src)
            .s("in_history", &got.brief())
            .s("fresh", &fresh.brief())
            .s("residue", &format!("{:?}", snap))
            .n("last_history_call_repeated_times", repeated as u64)
            .done();
        ctx.violation("history-dependence", "", &m, w);
    }
    let mut hs: Vec<&str> = hist.iter().map(|c| c.src.as_str()).collect();
    hs.push(&probe.src);
    ctx.nontrivial(hash_strs(&hs) ^ (probe.entry as u64));
    if ctx.want_sample() {
        ctx.sample(
            Obj::new()
                .raw("history", &json_arr(hist.iter().map(|c| Obj::new().s("entry", &format!("{:?}", c.entry)).s("src", &clip(&c.src, 60)).done())))
                .raw("probe", &probe.json())
                .s("residue", &format!("{:?}", snap))
                .done(),
        );
    }
    let _ = std::fs::remove_dir_all(&dir);
}
