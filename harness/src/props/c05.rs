//! C05 — macro usages expand per IEEE 22.5.1 and misuse is reported by name.

use crate::ctx::{Ctx, Tier};
use crate::props::c04;
use crate::util::*;
use crate::Env;

pub fn cases(tier: Tier) -> u64 {
    c04::cases(tier)
}

pub fn run_case(_env: &Env, ctx: &mut Ctx, idx: u64) {
    let mut rng = Rng::derive(ctx.seed, 5, idx, 0);
    let o = c04::profile_c05(&mut rng);
    c04::run_with(ctx, &mut rng, o, "C05");
}
