//! C05 — macro usages expand per IEEE 22.5.1 and misuse is reported by name.

use crate::api::*;
use crate::ctx::{Ctx, Tier};
use crate::lexer;
use crate::props::c04;
use crate::util::*;
use crate::Env;
use std::path::Path;

pub fn cases(tier: Tier) -> u64 {
    c04::cases(tier)
}

pub fn run_case(_env: &Env, ctx: &mut Ctx, idx: u64) {
    let mut rng = Rng::derive(ctx.seed, 5, idx, 0);
    if rng.chance(1, 12) {
        ws_around_usage(ctx, &mut rng, idx);
        return;
    }
    let o = c04::profile_c05(&mut rng);
    c04::run_with(ctx, &mut rng, o, "C05");
}

const GAPS: &[&str] = &[" ", "  ", "\t", "\n", " \n  ", "\r\n", "\n\n", " /* c */ ", "/**/", " // c\n", "\n// c\n\t", " \t \n", "\u{c}"];

/// "Text and white space around the usage are preserved": the reference expander compares tokens, so the bytes
/// between the neighbours of a usage and its expansion get a check of their own.  A usage stands between two
/// unique plain tokens A and B with known runs of white space / comments on either side; in the output the text
/// from the end of A to the beginning of B has to begin with the first run and end with the second one, byte for
/// byte, with the expansion's tokens in between.
fn ws_around_usage(ctx: &mut Ctx, rng: &mut Rng, idx: u64) {
    let n = rng.range(1, 4);
    let mut src = String::new();
    src.push_str("`define WA wx1 wy1\n`define WF(a, b) a + b\n`define WE\n`define WN(p) [p]\n`define WD(q = dflt) q ;\n");
    let mut expect: Vec<(String, String, String, Vec<String>, String)> = Vec::new(); // (A, gap1, gap2, expansion tokens, B)
    for i in 0..n {
        let a = format!("wsa_{}_{}", idx, i);
        let b = if rng.chance(1, 4) { ";".to_string() } else { format!("wsb_{}_{}", idx, i) };
        let (usage, toks): (String, Vec<&str>) = match rng.below(7) {
            0 | 1 => ("`WA".into(), vec!["wx1", "wy1"]),
            2 => (format!("`WF({}p1{},{}q1{})", rng.pick(&["", " "]), rng.pick(&["", " "]), rng.pick(&["", " ", "\n"]), rng.pick(&["", " "])), vec!["p1", "+", "q1"]),
            3 => ("`WE".into(), vec![]),
            4 => ("`WN(`WA)".into(), vec!["[", "wx1", "wy1", "]"]),
            5 => ("`WD()".into(), vec!["dflt", ";"]),
            _ => ("`WD ( z9 )".into(), vec!["z9", ";"]),
        };
        let mut g1 = rng.pick(GAPS).to_string();
        let mut g2 = rng.pick(GAPS).to_string();
        if rng.chance(1, 6) && b == ";" {
            g2 = String::new();
        }
        if rng.chance(1, 8) {
            g1 = format!("{}{}", g1, rng.pick(GAPS));
        }
        if rng.chance(1, 8) {
            g2 = format!("{}{}", g2, rng.pick(GAPS));
        }
        src.push_str(&format!("{}{}{}{}{}{}", a, g1, usage, g2, b, rng.pick(&["\n", " ", "\n\n"])));
        expect.push((a, g1, g2, toks.iter().map(|s| s.to_string()).collect(), b));
    }
    ctx.count("programs", 1);
    ctx.count("ws_programs", 1);
    let witness = |d: &str, out: &str| Obj::new().s("source", &src).s("output", out).s("detail", d).done();
    let out = match pp_str(&src, Path::new("ws.sv"), &Cfg::default()) {
        Err(_) => {
            ctx.inconclusive("lib_panic");
            return;
        }
        Ok(Err(e)) => {
            let m = format!("a program of plain usages between plain tokens is rejected: {:?}", e);
            ctx.violation("ws-around-usage-rejected", "", &m, witness(&m, ""));
            return;
        }
        Ok(Ok((t, _))) => t.text().to_string(),
    };
    let mut from = 0usize;
    for (a, g1, g2, toks, b) in &expect {
        ctx.count("ws_usages_checked", 1);
        let pa = match out[from..].find(a.as_str()) {
            Some(p) => from + p + a.len(),
            None => {
                let m = format!("token {} in front of a usage is missing from the output", a);
                ctx.violation("ws-around-usage", "", &m, witness(&m, &out));
                return;
            }
        };
        // B: the unique token, or the first `;` that is not part of the expansion (expansions of WD end in one)
        let pb = if b == ";" {
            let mut p = pa;
            let skip = toks.iter().filter(|t| *t == ";").count();
            let mut seen = 0;
            let mut found = None;
            for (i, c) in out[pa..].char_indices() {
                if c == ';' {
                    if seen == skip {
                        found = Some(pa + i);
                        break;
                    }
                    seen += 1;
                }
            }
            p = found.unwrap_or(p);
            if found.is_none() {
                let m = format!("the `;` behind the usage after {} is missing from the output", a);
                ctx.violation("ws-around-usage", "", &m, witness(&m, &out));
                return;
            }
            p
        } else {
            match out[pa..].find(b.as_str()) {
                Some(p) => pa + p,
                None => {
                    let m = format!("token {} behind a usage is missing from the output", b);
                    ctx.violation("ws-around-usage", "", &m, witness(&m, &out));
                    return;
                }
            }
        };
        let between = &out[pa..pb];
        let got: Vec<&str> = lexer::tokens(between);
        let want: Vec<&str> = toks.iter().map(|s| s.as_str()).collect();
        let ok_tokens = got == want;
        let ok_lead = between.starts_with(g1.as_str());
        let ok_trail = between.ends_with(g2.as_str());
        // when nothing is expanded the two runs must both be there, one after the other
        let ok_len = between.len() >= g1.len() + g2.len();
        if !(ok_tokens && ok_lead && ok_trail && ok_len) {
            let m = format!(
                "text between {} and {} is {:?}: expected it to begin with {:?}, to end with {:?} and to hold the tokens {:?} (tokens {}, leading run {}, trailing run {})",
                a,
                b,
                between,
                g1,
                g2,
                want,
                if ok_tokens { "ok" } else { "differ" },
                if ok_lead { "ok" } else { "differs" },
                if ok_trail && ok_len { "ok" } else { "differs" }
            );
            ctx.violation("ws-around-usage", "", &m, witness(&m, &out));
            return;
        }
        from = pb;
    }
    ctx.count("agree_with_reference", 1);
    ctx.nontrivial(hash_strs(&[&src]));
}
