//! C03 — the origin map sends every output byte back to the file and offset it came from.

use crate::api::*;
use crate::ctx::{Ctx, Tier};
use crate::gen_pp::{self, Prov};
use crate::lexer::{self, K};
use crate::mon_pp::Setup;
use crate::props::c04;
use crate::util::*;
use crate::Env;
use std::path::{Path, PathBuf};
use sv_parser::*;

pub fn cases(tier: Tier) -> u64 {
    match tier {
        Tier::Quick => 24000,
        Tier::Thorough => 500000,
        Tier::Tiny => 12,
    }
}

pub fn run_case(env: &Env, ctx: &mut Ctx, idx: u64) {
    let mut rng = Rng::derive(ctx.seed, 3, idx, 0);
    if rng.chance(1, 8) {
        get_origin_check(env, ctx, &mut rng);
        return;
    }
    let dir = ctx.tmpdir.join(format!("c03-{}", idx));
    let multi = rng.chance(1, 3);
    let mut o = if rng.chance(1, 2) { c04::profile_c04(&mut rng) } else { c04::profile_c05(&mut rng) };
    o.misuse = false;
    o.predefined_names = false; // K2 belongs to C04
    o.sv_cov = false;
    o.line_file = true;
    o.define_in_body = false; // provenance of definitions that come out of expansions is not modelled
    let setup = if multi {
        o.max_depth = 3;
        let prog = gen_pp::multi_file(&mut rng, o, 3);
        let rendered = gen_pp::render(&prog, &mut rng);
        let cfg = Cfg { include_paths: vec![dir.clone()], strip_comments: rng.chance(1, 4), ..Cfg::default() };
        let s = Setup { prog, rendered, dir: Some(dir.clone()), cfg, top: 0 };
        s.write_files();
        s
    } else {
        let n = rng.range(2, 6);
        let prog = gen_pp::single_file(&mut rng, o, n);
        // now and then comments are the only separators between items
        let comment_seps = rng.chance(1, 3);
        let rendered = gen_pp::render_opt(&prog, &mut rng, comment_seps);
        let cfg = Setup::cfg_with_predefs(&prog, Cfg { strip_comments: rng.chance(1, 4), ..Cfg::default() });
        Setup { prog, rendered, dir: None, cfg, top: 0 }
    };
    check_program(ctx, &setup, &mut rng);
    let _ = std::fs::remove_dir_all(&dir);
}

fn file_path(setup: &Setup, fi: usize) -> PathBuf {
    match &setup.dir {
        Some(d) => d.join(&setup.rendered.files[fi].0),
        None => PathBuf::from(&setup.rendered.files[fi].0),
    }
}

#[derive(Clone, Copy, PartialEq, Eq, Debug)]
enum Class {
    Gap,
    ExpGap,
    SynthGap,
    Src,
    Exp,
    Synth,
}

fn check_program(ctx: &mut Ctx, setup: &Setup, rng: &mut Rng) {
    ctx.count("programs", 1);
    let pt = match setup.run() {
        Ok(Ok((t, _))) => t,
        Ok(Err(_)) => {
            ctx.count("programs_with_error", 1);
            return;
        }
        Err(_) => {
            ctx.inconclusive("lib_panic");
            return;
        }
    };
    let exp = setup.expect(gen_pp::Quirks::default());
    let text = pt.text().to_string();
    let (toks, _) = lexer::lex(&text);
    let otoks: Vec<lexer::Tok> = toks.iter().filter(|t| !lexer::is_trivia(t.k)).cloned().collect();
    if exp.error.is_some() || otoks.len() != exp.tokens.len() || otoks.iter().zip(exp.tokens.iter()).any(|(t, e)| &text[t.s..t.e] != e.as_str()) {
        // token-level disagreement is the business of C04/C05
        ctx.count("skipped_token_mismatch", 1);
        return;
    }
    ctx.count("programs_checked", 1);
    let paths: Vec<PathBuf> = (0..setup.prog.files.len()).map(|i| file_path(setup, i)).collect();
    let witness = |d: &str| setup.witness(&format!("{} | output: {:?}", d, clip(&text, 600)));
    let origin = |p: usize| pt.origin(p).map(|(pb, o)| (pb.clone(), o));
    let mut class = vec![Class::Gap; text.len()];
    // A. token provenance
    for (t, pv) in otoks.iter().zip(exp.prov.iter()) {
        for k in 0..(t.e - t.s) {
            let p = t.s + k;
            let got = origin(p);
            match pv {
                Prov::Src { file, off } => {
                    class[p] = Class::Src;
                    ctx.count("copied_token_bytes", 1);
                    let want = (paths[*file].clone(), off + k);
                    if got.as_ref() != Some(&want) {
                        let m = format!(
                            "byte {} of output (token {:?}) was copied from {}:{} but origin() = {:?}",
                            p,
                            &text[t.s..t.e],
                            want.0.display(),
                            want.1,
                            got
                        );
                        ctx.violation("copied-token-origin", "", &m, witness(&m));
                        return;
                    }
                }
                Prov::Exp { name, def_file, body_begin, .. } => {
                    class[p] = Class::Exp;
                    ctx.count("expansion_token_bytes", 1);
                    let ok = matches!(&got, Some((pb, o)) if pb == &paths[*def_file] && *o >= *body_begin);
                    if !ok {
                        let m = format!(
                            "byte {} of output (token {:?}) comes from expanding `{} defined in {} (body at {}), but origin() = {:?}",
                            p,
                            &text[t.s..t.e],
                            name,
                            paths[*def_file].display(),
                            body_begin,
                            got
                        );
                        ctx.violation("expansion-origin", "", &m, witness(&m));
                        return;
                    }
                }
                Prov::Synth(_) => {
                    class[p] = Class::Synth;
                    ctx.count("synthesised_token_bytes", 1);
                    if got.is_some() {
                        let m = format!("byte {} of output (synthesised token {:?}) has origin {:?}, expected none", p, &text[t.s..t.e], got);
                        ctx.violation("synthesised-has-origin", "", &m, witness(&m));
                        return;
                    }
                }
            }
        }
    }
    // white space that follows an expansion token may belong to the expansion (e.g. the restored argument
    // list of a formal-less macro carries its trailing blanks): either origin is admissible there
    // (likewise a gap in front of an expansion token: an actual argument may begin with a comment)
    {
        let mut prev_exp = false;
        for p in 0..text.len() {
            match class[p] {
                Class::Exp => prev_exp = true,
                Class::Gap => {
                    if prev_exp {
                        class[p] = Class::ExpGap;
                    }
                }
                _ => prev_exp = false,
            }
        }
        let mut next_exp = false;
        for p in (0..text.len()).rev() {
            match class[p] {
                Class::Exp => next_exp = true,
                Class::Gap => {
                    if next_exp {
                        class[p] = Class::ExpGap;
                    }
                }
                Class::ExpGap => {}
                _ => next_exp = false,
            }
        }
    }
    // white space between two tokens of one origin-less expansion (caller-supplied macro followed by its restored
    // argument list) belongs to that synthesised segment
    for w in otoks.windows(2).zip(exp.prov.windows(2)) {
        if let ([a, b], [Prov::Synth(Some(x)), Prov::Synth(Some(y))]) = (w.0, w.1) {
            if x == y {
                for p in a.e..b.s {
                    class[p] = Class::SynthGap;
                }
            }
        }
    }
    // the white space that directly follows the last token of such a segment is part of the usage's text and comes
    // along with it (the walk emits it once more, with its origin, afterwards)
    for (t, pv) in otoks.iter().zip(exp.prov.iter()) {
        if let Prov::Synth(Some(_)) = pv {
            let mut p = t.e;
            while p < text.len() && class[p] == Class::Gap && origin(p).is_none() {
                class[p] = Class::SynthGap;
                p += 1;
            }
        }
    }
    // B. no other byte lacks an origin: white space and comments were copied from some file
    for p in 0..text.len() {
        if class[p] == Class::Gap || class[p] == Class::ExpGap {
            ctx.count("gap_bytes", 1);
            if origin(p).is_none() {
                let m = format!(
                    "byte {} of output ({:?}, white space / comment, context {:?}) has no origin",
                    p,
                    &text[p..p + 1],
                    clip(&text[p.saturating_sub(12).min(p)..(p + 12).min(text.len())], 40)
                );
                ctx.violation("byte-without-origin", "", &m, witness(&m));
                return;
            }
        }
    }
    // B'. white space and comments between two tokens that were copied from adjacent places of one file, with no
    // directive or usage between them in the source, were copied from exactly that stretch of the file: every such
    // output byte has an origin inside the stretch and equals the source byte the origin names.  (With
    // strip_comments a block comment leaves one blank, attributed to the comment's first byte.)  Stretches that
    // hold a backtick are left to rule B: an expansion may have contributed white space there, and expansions
    // are attributed to the definition's body as a whole.
    for (w, pv) in otoks.windows(2).zip(exp.prov.windows(2)) {
        if let ([ta, tb], [Prov::Src { file: fa, off: oa }, Prov::Src { file: fb, off: ob }]) = (w, pv) {
            let a = oa + (ta.e - ta.s);
            let bsrc = *ob;
            if fa != fb || a > bsrc {
                continue;
            }
            let src = setup.rendered.files[*fa].1.as_bytes();
            if bsrc > src.len() {
                continue;
            }
            // anything but white space and comments in the stretch (a directive, a usage)?  A backtick inside a comment does not count.
            let stretch = &setup.rendered.files[*fa].1[a..bsrc];
            let (st, fault) = lexer::lex(stretch);
            if fault.is_some() || st.iter().any(|t| !lexer::is_trivia(t.k)) {
                continue;
            }
            for p in ta.e..tb.s {
                let out = text.as_bytes()[p];
                ctx.count("origin_bytes_compared", 1);
                let ok = match origin(p) {
                    Some((pb, o)) => {
                        pb == paths[*fa]
                            && o >= a
                            && o < bsrc
                            && (src[o] == out || (setup.cfg.strip_comments && out == b' ' && src[o] == b'/' && src.get(o + 1) == Some(&b'*')))
                    }
                    None => false,
                };
                if !ok {
                    let m = format!(
                        "byte {} of output ({:?}) lies between two tokens copied from {}:{}..{} with only white space / comments between them, but origin() = {:?} (source stretch {:?})",
                        p,
                        out as char,
                        paths[*fa].display(),
                        a,
                        bsrc,
                        origin(p),
                        clip(&String::from_utf8_lossy(&src[a..bsrc]), 60)
                    );
                    ctx.violation("origin-byte-differs", "", &m, witness(&m));
                    return;
                }
            }
        }
    }
    ctx.count("positions_checked", text.len() as u64);
    // C. flip experiments: interventional ground truth for "copied from"
    let nflips = if text.len() < 400 { 40 } else { 12 };
    for _ in 0..nflips {
        let fi = rng.below(setup.rendered.files.len());
        let src = &setup.rendered.files[fi].1;
        let cands = flippable(src);
        if cands.is_empty() {
            continue;
        }
        let (q, nb) = *rng.pick(&cands);
        let mut bytes = src.clone().into_bytes();
        bytes[q] = nb;
        let flipped = String::from_utf8(bytes).unwrap();
        let mut rd2 = setup.rendered.clone();
        rd2.files[fi].1 = flipped;
        let s2 = Setup { prog: setup.prog.clone(), rendered: rd2, dir: setup.dir.clone(), cfg: setup.cfg.clone(), top: setup.top };
        s2.write_files();
        let r2 = s2.run();
        // restore the files on disk
        setup.write_files();
        let t2 = match r2 {
            Ok(Ok((t, _))) => t.text().to_string(),
            _ => {
                ctx.count("flips_discarded_structural", 1);
                continue;
            }
        };
        if t2.len() != text.len() {
            ctx.count("flips_discarded_structural", 1);
            continue;
        }
        ctx.count("flip_experiments", 1);
        let in_define = in_define_line(src, q);
        let mut changed = 0;
        for p in 0..text.len() {
            if text.as_bytes()[p] != t2.as_bytes()[p] {
                changed += 1;
                let got = origin(p);
                let exact = got.as_ref() == Some(&(paths[fi].clone(), q));
                // bytes of macro bodies, defaults and actual arguments surface inside expansions, whose origin
                // (the definition's file, checked per token above) is what the statement asks for
                let ok = exact
                    || ((class[p] == Class::Exp || class[p] == Class::ExpGap) && got.is_some())
                    || ((class[p] == Class::Synth || class[p] == Class::SynthGap) && got.is_none())
                    // a comment of a macro body surfaces in the expansion without a token next to it
                    || (in_define && class[p] == Class::Gap && matches!(&got, Some((pb, o)) if *pb == paths[fi] && in_define_line(src, (*o).min(src.len()))));
                if !ok {
                    let m = format!(
                        "flipping byte {} of {} ({:?} -> {:?}) changes output byte {}, so that byte was copied from there, but origin({}) = {:?}",
                        q,
                        paths[fi].display(),
                        src.as_bytes()[q] as char,
                        nb as char,
                        p,
                        p,
                        got
                    );
                    ctx.violation("flip-origin", "", &m, witness(&m));
                    return;
                }
            }
        }
        ctx.count("flip_changed_positions", changed);
        if changed == 0 {
            ctx.count("flips_without_effect", 1);
        }
    }
    let mut h = Fnv::new();
    for (_, t) in &setup.rendered.files {
        h.str(t);
    }
    ctx.nontrivial(h.0);
    if ctx.want_sample() && text.len() > 40 {
        ctx.sample(
            Obj::new()
                .s("source", &clip(&setup.rendered.files[0].1, 300))
                .s("output", &clip(&text, 300))
                .n("positions", text.len() as u64)
                .done(),
        );
    }
}

/// source bytes that can be changed without changing structure, with the replacement byte:
/// digits of payload / comment / string uids, blank <-> tab in blank runs outside `define lines and argument lists
fn flippable(src: &str) -> Vec<(usize, u8)> {
    let b = src.as_bytes();
    let (toks, _) = lexer::lex(src);
    let mut out = Vec::new();
    let mut paren_depth = 0i32;
    let mut after_tick = false;
    for (i, t) in toks.iter().enumerate() {
        let tx = &src[t.s..t.e];
        match t.k {
            K::Word => {
                // payload-like tokens: a letter followed by digits (t12, b7, a3, v9, q4, s5 ...); never macro / formal names
                let bytes = tx.as_bytes();
                let is_payload = bytes.len() >= 2
                    && matches!(bytes[0], b't' | b'b' | b'a' | b'v' | b'q' | b's' | b'd' | b'c')
                    && bytes[1..].iter().all(|c| c.is_ascii_digit())
                    && !toks.get(i.wrapping_sub(1)).map(|p| p.k == K::Tick && p.e == t.s).unwrap_or(false);
                if is_payload {
                    let q = t.e - 1;
                    let nb = if b[q] == b'9' { b'8' } else { b[q] + 1 };
                    // the changed name must not collide with structure: uid tokens are opaque, so any digit works,
                    // but defaults (d..) and actuals (a..) may be compared nowhere: fine
                    out.push((q, nb));
                }
                after_tick = false;
            }
            K::Ws => {
                if paren_depth == 0 && !in_define_line(src, t.s) {
                    for q in t.s..t.e {
                        if b[q] == b' ' {
                            out.push((q, b'\t'));
                        } else if b[q] == b'\t' {
                            out.push((q, b' '));
                        }
                    }
                }
            }
            K::LineComment | K::BlockComment => {
                // a digit of the comment's uid
                if let Some(k) = tx.bytes().rposition(|c| c.is_ascii_digit()) {
                    let q = t.s + k;
                    out.push((q, if b[q] == b'9' { b'8' } else { b[q] + 1 }));
                }
            }
            K::Str => {
                if let Some(k) = tx.bytes().position(|c| c.is_ascii_digit()) {
                    let q = t.s + k;
                    if !in_define_line(src, q) && !tx.contains(".svh") {
                        out.push((q, if b[q] == b'9' { b'8' } else { b[q] + 1 }));
                    }
                }
            }
            K::Tick => after_tick = true,
            K::Punct => {
                if tx == "(" && (after_tick || paren_depth > 0) {
                    paren_depth += 1;
                } else if tx == ")" && paren_depth > 0 {
                    paren_depth -= 1;
                }
                after_tick = false;
            }
            _ => after_tick = false,
        }
    }
    out
}

fn in_define_line(src: &str, q: usize) -> bool {
    // walk back to the start of the logical line (continuations join lines)
    let b = src.as_bytes();
    let mut s = q;
    loop {
        while s > 0 && b[s - 1] != b'\n' {
            s -= 1;
        }
        if s >= 2 && b[s - 2] == b'\\' {
            s -= 2;
            continue;
        }
        break;
    }
    // a `define anywhere before q on this logical line swallows the rest of the line
    src[s..q].contains("`define")
}

/// SyntaxTree::get_origin of a token returns the lookup result for the token's first byte
fn get_origin_check(env: &Env, ctx: &mut Ctx, rng: &mut Rng) {
    let p = env.corpus.pick_program(rng);
    let src = format!(
        "`define W 8\n`define INC(x) (x + 1)\n// header\nmodule __c3; localparam L = `W; assign a = `INC(b); /* c */ endmodule\n`__LINE__ `__FILE__\n{}\n",
        p
    );
    let path = Path::new("c03.sv");
    let cfg = Cfg { allow_incomplete: true, ..Cfg::default() };
    let tree = match parse_str(Gram::Sv, &src, path, &cfg) {
        Ok(Ok((t, _))) => t,
        _ => return,
    };
    let pt = match pp_str(&src, path, &cfg) {
        Ok(Ok((t, _))) => t,
        _ => return,
    };
    ctx.count("get_origin_trees", 1);
    for n in &tree {
        if let RefNode::Locate(l) = n {
            ctx.count("get_origin_leaves", 1);
            let a = tree.get_origin(l).map(|(p, o)| (p.clone(), o));
            let b = pt.origin(l.offset).map(|(p, o)| (p.clone(), o));
            if a != b {
                let m = format!("get_origin(token at {}) = {:?} but origin({}) = {:?}", l.offset, a, l.offset, b);
                ctx.violation("get-origin", "", &m, Obj::new().s("input", &src).done());
                return;
            }
        }
    }
    ctx.nontrivial(hash_str(&src));
}

fn floor_cb(s: &str, mut i: usize) -> usize {
    while !s.is_char_boundary(i) {
        i -= 1;
    }
    i
}
fn ceil_cb(s: &str, mut i: usize) -> usize {
    while !s.is_char_boundary(i) {
        i += 1;
    }
    i
}
