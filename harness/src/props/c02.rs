//! C02 — Annex A sentences are accepted and classified under their production.

use crate::api::*;
use crate::ctx::{Ctx, Tier};
use crate::gen_sv::{self, Fact, TK};
use crate::mon_facts;
use crate::util::*;
use crate::Env;
use std::collections::BTreeMap;
use std::path::Path;
use sv_parser::*;

pub fn cases(tier: Tier) -> u64 {
    match tier {
        Tier::Quick => 10000,
        Tier::Thorough => 200000,
        Tier::Tiny => 32,
    }
}

fn multiset(v: &[Fact]) -> BTreeMap<Fact, i64> {
    let mut m = BTreeMap::new();
    for f in v {
        *m.entry(f.clone()).or_insert(0) += 1;
    }
    m
}

/// difference description, empty when equal (after applying admissible alternatives)
fn diff(expected: &[Fact], alt: &[(Fact, &'static str)], observed: &[Fact]) -> Vec<String> {
    let mut e = multiset(expected);
    let mut o = multiset(observed);
    // cancel equal
    for (f, c) in e.iter_mut() {
        if let Some(oc) = o.get_mut(f) {
            let m = (*c).min(*oc);
            *c -= m;
            *oc -= m;
        }
    }
    // admissible alternatives
    for (f, other) in alt {
        let ec = e.get(f).copied().unwrap_or(0);
        if ec > 0 {
            let of = Fact { kind: other, name: f.name.clone() };
            if let Some(oc) = o.get_mut(&of) {
                if *oc > 0 {
                    *oc -= 1;
                    *e.get_mut(f).unwrap() -= 1;
                }
            }
        }
    }
    let mut out = Vec::new();
    for (f, c) in e {
        if c > 0 {
            out.push(format!("missing {}x ({}, {:?})", c, f.kind, f.name));
        }
    }
    for (f, c) in o {
        if c > 0 {
            out.push(format!("unexpected {}x ({}, {:?})", c, f.kind, f.name));
        }
    }
    out
}

pub fn run_case(_env: &Env, ctx: &mut Ctx, idx: u64) {
    let mut rng = Rng::derive(ctx.seed, 2, idx, 0);
    let k6_shape = rng.chance(1, 10);
    let opts = gen_sv::Opts {
        max_items: if ctx.tier == Tier::Tiny { 2 } else { rng.range(2, 10) },
        k6_safe: !k6_shape,
        escaped_ids: true,
        classes: true,
        layout: if rng.chance(1, 5) { gen_sv::Layout::Plain } else { gen_sv::Layout::Random },
    };
    let mut prog = gen_sv::program(&mut rng, &opts);
    // compiler directives that leave the sentence alone in front of it (white space as far as Annex A goes)
    if rng.chance(1, 4) {
        let mut pre = String::new();
        for _ in 0..rng.range(1, 2) {
            pre.push_str(*rng.pick(&[
                "`resetall\n",
                "`resetall ",
                "`celldefine\n",
                "`endcelldefine\n",
                "`default_nettype none\n",
                "`timescale 1ns/1ps\n",
                "`unconnected_drive pull1\n",
                "`nounconnected_drive\n",
                "`line 3 \"x.sv\" 0\n",
            ]));
        }
        ctx.count("programs_behind_directives", 1);
        let n = pre.len();
        prog.text = format!("{}{}", pre, prog.text);
        for s in prog.spans.iter_mut() {
            *s = (s.0 + n, s.1 + n);
        }
    }
    check_program(_env, ctx, &prog, k6_shape);
}

pub fn check_program(_env: &Env, ctx: &mut Ctx, prog: &gen_sv::Program, k6_shape: bool) {
    ctx.count("programs", 1);
    ctx.count("tokens", prog.toks.len() as u64);
    ctx.count("expected_facts", prog.facts.len() as u64);
    for (k, n) in &prog.counts {
        ctx.count(&format!("construct:{}", k), *n as u64);
    }
    let src = &prog.text;
    let witness = |detail: &str| Obj::new().s("input", src).s("detail", detail).b("k6_shape", k6_shape).done();

    // --- path 1: public entry point (acceptance + facts)
    let cfg = Cfg::default();
    let r = parse_str(Gram::Sv, src, Path::new("c02.sv"), &cfg);
    let tree = match r {
        Err(p) => {
            ctx.inconclusive("lib_panic");
            let _ = p;
            return;
        }
        Ok(Err(e)) => {
            // K3 triage: is the rejection an artefact of memo evictions?
            sv_parser_parser::verif_hooks::set_capacity(None);
            let r2 = parse_str(Gram::Sv, src, Path::new("c02.sv"), &cfg);
            sv_parser_parser::verif_hooks::set_capacity(Some(sv_parser_parser::verif_hooks::DEFAULT_CAPACITY));
            let msg = format!("generated Annex A sentence rejected in strict mode: {:?}", e);
            if let Ok(Ok(_)) = r2 {
                let (sig, note) = crate::memo_cfg::attribute(_env, "K3");
                ctx.violation("rejected", &sig, &format!("{} (accepted with unbounded memo){}", msg, note), witness(&msg));
            } else {
                ctx.violation("rejected", "", &msg, witness(&msg));
            }
            return;
        }
        Ok(Ok((t, _))) => t,
    };
    ctx.count("accepted", 1);
    // preprocessed text differs from src only by K1 doubled trivia; facts use node text through get_str
    let mut full = String::new();
    for n in &tree {
        if let RefNode::Locate(l) = n {
            full.push_str(tree.get_str(l).unwrap_or(""));
        }
    }
    let observed = mon_facts::observe(&tree, &full);
    ctx.count("observed_facts", observed.len() as u64);
    for f in &observed {
        ctx.seen("fact_kinds_observed", f.kind);
    }
    let d = diff(&prog.facts, &prog.alt, &observed);
    if !d.is_empty() {
        // K6 model quirk: leading `x = e;` of a body reported as declaration
        let mut with_k6 = prog.facts.clone();
        for n in &prog.k6_names {
            with_k6.push(Fact { kind: "VariableDeclAssignment", name: n.clone() });
        }
        let d6 = diff(&with_k6, &prog.alt, &observed);
        let msg = format!("fact multiset differs: {}", d.join("; "));
        if d6.is_empty() && !prog.k6_names.is_empty() {
            ctx.violation("facts", "K6", &msg, witness(&msg));
        } else {
            ctx.violation("facts", "", &msg, witness(&msg));
        }
    } else {
        ctx.count("fact_sets_equal", 1);
    }

    // --- path 2: raw parser, token check (offsets are the generator's)
    {
        use sv_parser_parser::{sv_parser, Span, SpanInfo};
        let r = lib(|| sv_parser(Span::new_extra(src.as_str(), SpanInfo::default())).map(|(_, t)| t).map_err(|_| ()));
        match r {
            Err(_) => ctx.inconclusive("lib_panic"),
            Ok(Err(())) => {
                let msg = "raw parser rejects a sentence that parse_sv_str accepts";
                ctx.violation("raw-rejected", "", msg, witness(msg));
            }
            Ok(Ok(t)) => {
                let mut leaves: Vec<(usize, usize)> = Vec::new();
                for n in &t {
                    if let RefNode::Locate(l) = n {
                        leaves.push((l.offset, l.len));
                    }
                }
                leaves.sort();
                let mut bad = Vec::new();
                let mut checked = 0u64;
                for (tok, (s, e)) in prog.toks.iter().zip(prog.spans.iter()) {
                    if matches!(tok.kind, TK::Id | TK::EscId | TK::Kw) {
                        checked += 1;
                        if leaves.binary_search(&(*s, e - s)).is_err() {
                            bad.push(format!("{:?} {:?} at [{}, {})", tok.kind, tok.text, s, e));
                            if bad.len() > 4 {
                                break;
                            }
                        }
                    }
                }
                ctx.count("tokens_leaf_checked", checked);
                if !bad.is_empty() {
                    let msg = format!("identifier/keyword tokens that are not exactly one leaf: {}", bad.join(", "));
                    ctx.violation("token-leaf", "", &msg, witness(&msg));
                }
                let obs2 = mon_facts::observe(&t, src);
                if multiset(&obs2) != multiset(&observed) {
                    let msg = "raw parser and parse_sv_str classify the sentence differently";
                    ctx.violation("raw-facts", "", msg, witness(msg));
                }
            }
        }
    }
    ctx.nontrivial(hash_str(src));
    if ctx.want_sample() {
        ctx.sample(
            Obj::new()
                .s("input", &clip(src, 600))
                .n("tokens", prog.toks.len() as u64)
                .raw("expected_facts", &json_arr(prog.facts.iter().take(12).map(|f| json_str(&format!("{}:{}", f.kind, f.name)))))
                .done(),
        );
    }
}
