//! C16 — tree traversal is a faithful pre-order with balanced events.

use crate::api::*;
use crate::ctx::{Ctx, Tier};
use crate::mon_iter::{self, IterStats};
use crate::util::*;
use crate::workload;
use crate::Env;
use std::path::Path;
use sv_parser::*;

pub fn cases(tier: Tier) -> u64 {
    match tier {
        Tier::Quick => 24000,
        Tier::Thorough => 400000,
        Tier::Tiny => 32,
    }
}

pub fn run_case(env: &Env, ctx: &mut Ctx, idx: u64) {
    let mut rng = Rng::derive(ctx.seed, 16, idx, 0);
    let inp = workload::tree_input(env, &mut rng);
    let incomplete = rng.chance(1, 4);
    let cfg = Cfg { allow_incomplete: incomplete, ..Cfg::default() };
    ctx.count("inputs", 1);
    let witness = |d: &str| Obj::new().s("input", &inp.text).s("kind", inp.kind).b("allow_incomplete", incomplete).s("detail", d).done();
    let step = if ctx.tier == Tier::Quick { 7 } else { 3 };

    // 1. pp_parser tree (the preprocessor itself is an EventIter client)
    if rng.chance(1, 3) {
        use sv_parser_parser::{pp_parser, Span, SpanInfo};
        let r = lib(|| pp_parser(Span::new_extra(inp.text.as_str(), SpanInfo::default())).map(|(_, t)| t).map_err(|_| ()));
        if let Ok(Ok(t)) = r {
            let mut st = IterStats::default();
            let res = lib(|| mon_iter::check_traversal(|| (&t).into_iter(), Some(&env.structs), step, &mut st));
            ctx.count("pp_trees", 1);
            ctx.count("nodes", st.nodes);
            match res {
                Ok(Ok(())) => {}
                Ok(Err(m)) => ctx.violation("traversal-pp-tree", "", &m, witness(&m)),
                Err(p) => ctx.violation("traversal-panic", "", &p.0, witness(&p.0)),
            }
        }
    }

    // 2. syntax tree
    let (pt, defs) = match pp_str(&inp.text, Path::new("c16.sv"), &cfg) {
        Ok(Ok(x)) => x,
        Ok(Err(_)) => {
            ctx.count("pp_rejected", 1);
            return;
        }
        Err(_) => {
            ctx.inconclusive("lib_panic");
            return;
        }
    };
    let text = pt.text().to_string();
    let tree = match parse_pp(inp.gram, pt, defs, incomplete) {
        Ok(Ok((t, _))) => t,
        Ok(Err(_)) => {
            ctx.count("rejected", 1);
            return;
        }
        Err(_) => {
            ctx.inconclusive("lib_panic");
            return;
        }
    };
    let mut st = IterStats::default();
    let res = lib(|| {
        mon_iter::check_traversal(|| (&tree).into_iter(), Some(&env.structs), step, &mut st)?;
        mon_iter::check_macros_and_trim(&tree, &text, step, &mut st)
    });
    ctx.count("trees", 1);
    ctx.count("nodes", st.nodes);
    ctx.count("events", st.events);
    ctx.count("sub_iterations_checked", st.sub_iters);
    ctx.count("debug_witness_items", st.witness_items);
    ctx.count("unwrap_checks", st.unwrap_checks);
    ctx.count("get_str_trim_checks", st.trim_checks);
    ctx.max("tree_depth", st.max_depth);
    ctx.count("advanced_event_views", st.advanced_event_views);
    match res {
        Ok(Ok(())) => {
            ctx.nontrivial(hash_strs(&[&inp.text, if incomplete { "i" } else { "s" }]));
            if ctx.want_sample() {
                ctx.sample(
                    Obj::new().s("input", &clip(&inp.text, 300)).s("kind", inp.kind).n("nodes", st.nodes).n("events", st.events).n("max_depth", st.max_depth).done(),
                );
            }
        }
        Ok(Err(m)) => ctx.violation("traversal", "", &m, witness(&m)),
        Err(p) => ctx.violation("traversal-panic", "", &p.0, witness(&p.0)),
    }
    ctx.seen_kinds(&tree);
}
