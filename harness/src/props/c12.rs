//! C12 — trivia between tokens never alters the parse.

use crate::api::*;
use crate::ctx::{Ctx, Tier};
use crate::gen_sv::{self, TK};
use crate::lexer::K;
use crate::mutate::{self, Layout};
use crate::util::*;
use crate::Env;
use std::path::Path;
use sv_parser_parser::verif_hooks as hooks;
use sv_parser_parser::{sv_parser, Span, SpanInfo};

pub fn cases(tier: Tier) -> u64 {
    match tier {
        Tier::Quick => 9000,
        Tier::Thorough => 200000,
        Tier::Tiny => 16,
    }
}

const FULL: Layout = Layout { directives: true, defines: true, non_ascii: true, form_feed: true, comments: true };

/// result of one parse: layout-free skeleton or rejection
fn raw(text: &str) -> Result<Option<Vec<String>>, LibPanic> {
    lib(|| match sv_parser(Span::new_extra(text, SpanInfo::default())) {
        Ok((_, t)) => Some(layout_free(&t, text, true)),
        Err(_) => None,
    })
}

fn via_pp(text: &str) -> Result<Option<Vec<String>>, LibPanic> {
    match parse_str(Gram::Sv, text, Path::new("c12.sv"), &Cfg::default())? {
        Ok((t, _)) => lib(|| {
            let mut full = String::new();
            for n in &t {
                if let sv_parser::RefNode::Locate(l) = n {
                    full.push_str(t.get_str(l).unwrap_or(""));
                }
            }
            Some(layout_free(&t, &full, true))
        }),
        Err(_) => Ok(None),
    }
}

fn tk_to_k(k: TK) -> K {
    match k {
        TK::EscId => K::EscId,
        TK::Str => K::Str,
        TK::Sym => K::Punct,
        _ => K::Word,
    }
}

pub fn run_case(env: &Env, ctx: &mut Ctx, idx: u64) {
    let mut rng = Rng::derive(ctx.seed, 12, idx, 0);
    let mut uid = 0u32;
    // (original, re-laid-out) pair with identical token sequences
    let (orig, relaid, kind): (String, String, &str) = if rng.chance(1, 2) {
        // G-SV program, plain layout as the original; optionally token-mutated (mostly rejected)
        let opts = gen_sv::Opts { layout: gen_sv::Layout::Plain, max_items: rng.range(2, 8), ..gen_sv::Opts::default() };
        let mut prog = gen_sv::program(&mut rng, &opts);
        let mutated = rng.chance(1, 4);
        if mutated && prog.toks.len() > 3 {
            let i = rng.below(prog.toks.len());
            match rng.below(3) {
                0 => {
                    prog.toks.remove(i);
                }
                1 => {
                    let j = rng.below(prog.toks.len());
                    prog.toks.swap(i, j);
                }
                _ => {
                    let t = prog.toks[i].clone();
                    prog.toks.insert(i, t);
                }
            }
            // description boundaries are no longer trustworthy
            prog.desc_starts.clear();
        }
        let mut a = String::new();
        let mut b = String::new();
        for (i, t) in prog.toks.iter().enumerate() {
            if i > 0 {
                a.push(' ');
                let p = &prog.toks[i - 1];
                if prog.desc_starts.contains(&i) && rng.chance(1, 3) {
                    // `resetall between top-level descriptions
                    b.push_str(&mutate::trivia_run(&mut rng, &mutate::PLAIN, Some((tk_to_k(p.kind), &p.text)), &mut uid));
                    b.push_str("`resetall");
                    b.push_str(*rng.pick(&["\n", " ", "\n\n"]));
                } else {
                    b.push_str(&mutate::trivia_run(&mut rng, &FULL, Some((tk_to_k(p.kind), &p.text)), &mut uid));
                }
            }
            a.push_str(&t.text);
            b.push_str(&t.text);
        }
        a.push('\n');
        b.push('\n');
        (a, b, if mutated { "gsv-mutated" } else { "gsv" })
    } else {
        let p = if rng.chance(1, 4) { mutate::token_mutate(env.corpus.pick_program(&mut rng), &mut rng) } else { env.corpus.pick_program(&mut rng).to_string() };
        match mutate::relayout(&p, &mut rng, &FULL) {
            Some(r) => (p, r, "corpus"),
            None => return,
        }
    };
    ctx.count("pairs", 1);
    ctx.count(&format!("kind:{}", kind), 1);
    if relaid.contains('\u{c}') {
        ctx.count("pairs_with_form_feed", 1);
    }
    if relaid.contains('`') {
        ctx.count("pairs_with_directives", 1);
    }
    // now and then the thread has just been through a call that was rejected half-way (thread-local parser state
    // is initialised per call, so this must not matter to the pair that follows)
    let mut earlier = String::new();
    if rng.chance(1, 5) {
        earlier = rng.pick(crate::mon_hist::POLLUTERS).to_string();
        let c = Cfg::default();
        let _ = if rng.chance(1, 2) { pp_str(&earlier, std::path::Path::new("h.sv"), &c).map(|_| ()) } else { parse_str(Gram::Sv, &earlier, std::path::Path::new("h.sv"), &c).map(|_| ()) };
        ctx.count("pairs_after_a_rejected_call", 1);
    }
    let witness = |d: &str| Obj::new().s("original", &orig).s("relaid", &relaid).s("kind", kind).s("earlier_call_on_this_thread", &earlier).s("detail", d).done();
    for path in ["raw", "pp"] {
        let run = |t: &str| if path == "raw" { raw(t) } else { via_pp(t) };
        let (a, b) = match (run(&orig), run(&relaid)) {
            (Ok(a), Ok(b)) => (a, b),
            _ => {
                ctx.inconclusive("lib_panic");
                continue;
            }
        };
        ctx.count("comparisons", 1);
        match (&a, &b) {
            (Some(_), Some(_)) => ctx.count("both_accepted", 1),
            (None, None) => ctx.count("both_rejected", 1),
            _ => {}
        }
        if a == b {
            continue;
        }
        let msg = match (&a, &b) {
            (Some(_), None) => "the original is accepted, the re-laid-out source is rejected".to_string(),
            (None, Some(_)) => "the original is rejected, the re-laid-out source is accepted".to_string(),
            (Some(x), Some(y)) => {
                let k = x.iter().zip(y.iter()).position(|(p, q)| p != q).unwrap_or(x.len().min(y.len()));
                format!("trees differ (white space aside) at skeleton item {}: {:?} vs {:?} (lengths {} / {})", k, x.get(k), y.get(k), x.len(), y.len())
            }
            _ => unreachable!(),
        };
        // K3 triage: does the difference vanish with an unbounded memo?
        hooks::set_capacity(None);
        let a2 = run(&orig);
        let b2 = run(&relaid);
        hooks::set_capacity(Some(hooks::DEFAULT_CAPACITY));
        let k3 = matches!((&a2, &b2), (Ok(x), Ok(y)) if x == y);
        // which inserted ingredient is responsible (for the message only)
        let ff = relaid.contains('\u{c}');
        let m = format!("[{} path] {}{}", path, msg, if ff { " (the new trivia contains a form feed)" } else { "" });
        let (sig, note) = crate::memo_cfg::attribute(env, if k3 { "K3" } else { "" });
        ctx.violation("trivia-changes-parse", &sig, &format!("{}{}", m, note), witness(&m));
    }
    ctx.nontrivial(hash_strs(&[&orig, &relaid]));
    if ctx.want_sample() {
        ctx.sample(Obj::new().s("original", &clip(&orig, 200)).s("relaid", &clip(&relaid, 300)).s("kind", kind).done());
    }
}
