//! C14 — invalid sources are rejected; error location is at or before the fault.

use crate::api::*;
use crate::ctx::{Ctx, Tier};
use crate::gen_sv;
use crate::lexer::{self, K};
use crate::util::*;
use crate::Env;
use std::path::PathBuf;
use sv_parser::Error;
use sv_parser_parser::verif_hooks as hooks;

pub fn cases(tier: Tier) -> u64 {
    match tier {
        Tier::Quick => 16000,
        Tier::Thorough => 300000,
        Tier::Tiny => 16,
    }
}

// bytes / characters that cannot start any token (incl. characters that are white space for Unicode but not for IEEE 1800 5.3)
const BAD_BYTES: &[&str] = &["\u{1}", "\u{7f}", "§", "¤", "\u{b}", "\u{a0}", "\u{85}", "\u{2028}", "\u{feff}"];
const CLOSERS: &[&str] = &[
    "end", "endmodule", "endfunction", "endtask", "endcase", "endclass", "endpackage", "endinterface", "endprogram", "endgenerate", "join", "join_any",
    "join_none", "endprimitive", "endtable", "endspecify", "endconfig", "endgroup", "endproperty", "endsequence", "endchecker", "endclocking",
];

/// (text, token spans, split point for include indirection: byte offset where complete descriptions start)
fn accepted_program(env: &Env, rng: &mut Rng) -> Option<(String, Vec<(usize, usize, K)>, Option<usize>)> {
    if rng.chance(1, 2) {
        let p = gen_sv::program(rng, &gen_sv::Opts::default());
        let spans: Vec<(usize, usize, K)> = p
            .toks
            .iter()
            .zip(p.spans.iter())
            .map(|(t, (s, e))| {
                (*s, *e, match t.kind {
                    gen_sv::TK::EscId => K::EscId,
                    gen_sv::TK::Str => K::Str,
                    gen_sv::TK::Sym => K::Punct,
                    _ => K::Word,
                })
            })
            .collect();
        // tail = descriptions from the second one on
        let split = if p.desc_starts.len() > 1 { Some(p.spans[p.desc_starts[1]].0) } else { None };
        Some((p.text, spans, split))
    } else {
        let mut p = env.corpus.pick_program(rng).to_string();
        if p.contains('`') {
            return None;
        }
        // half of them with kept (neutral) directives in the trivia: faults right after a directive line
        let with_directives = rng.chance(1, 2);
        if with_directives {
            let lay = crate::mutate::Layout { directives: true, defines: rng.chance(1, 2), non_ascii: false, form_feed: false, comments: true };
            p = crate::mutate::relayout(&p, rng, &lay)?;
        }
        // (not the strict mode: a `define body may hold a backslash followed by a blank)
        let (toks, fault) = lexer::lex_mode(&p, false);
        if fault.is_some() {
            return None;
        }
        // tokens on a directive line (from the backtick to the end of the line) are not fault positions
        let b = p.as_bytes();
        let mut spans = Vec::new();
        let mut in_dir = false;
        let mut after_backslash = false;
        for t in &toks {
            if t.k == K::Ws {
                // backslash-newline continues a directive line; the line ends at the next newline
                let w = &p[t.s..t.e];
                let w = if after_backslash { w.strip_prefix("\r\n").or_else(|| w.strip_prefix('\n')).or_else(|| w.strip_prefix('\r')).unwrap_or(w) } else { w };
                if in_dir && w.contains('\n') {
                    in_dir = false;
                }
                after_backslash = false;
                continue;
            }
            after_backslash = t.k == K::Punct && &p[t.s..t.e] == "\\";
            if t.k == K::Tick {
                in_dir = true;
                continue;
            }
            if in_dir || lexer::is_trivia(t.k) {
                if t.k == K::LineComment {
                    in_dir = false;
                }
                continue;
            }
            spans.push((t.s, t.e, t.k));
        }
        let _ = b;
        Some((p, spans, None))
    }
}

pub fn run_case(env: &Env, ctx: &mut Ctx, idx: u64) {
    let mut rng = Rng::derive(ctx.seed, 14, idx, 0);
    let (text, spans, split) = match accepted_program(env, &mut rng) {
        Some(x) => x,
        None => return,
    };
    if spans.is_empty() {
        return;
    }
    let dir = ctx.tmpdir.join(format!("c14-{}", idx));
    let _ = std::fs::create_dir_all(&dir);
    let cfg = Cfg { include_paths: vec![dir.clone()], ..Cfg::default() };
    let top = dir.join("top.sv");
    // only accepted programs are mutated
    match parse_str(Gram::Sv, &text, &top, &cfg) {
        Ok(Ok(_)) => {}
        Ok(Err(_)) => {
            ctx.count("base_rejected", 1);
            let _ = std::fs::remove_dir_all(&dir);
            return;
        }
        Err(_) => {
            ctx.inconclusive("lib_panic");
            return;
        }
    }
    ctx.count("accepted_programs", 1);
    for _ in 0..4 {
        let fault = rng.below(10);
        // choose the place of the fault
        let ti = rng.below(spans.len());
        let (ts, te, tk) = spans[ti];
        let (mutant, fault_off, kind, expect_pp): (String, usize, &str, bool) = match fault {
            0..=3 => {
                let b = *rng.pick(BAD_BYTES);
                (format!("{}{}{}", &text[..ts], b, &text[ts..]), ts, "bad-byte", false)
            }
            4..=6 => {
                let tx = &text[ts..te];
                let deletable = (tk == K::Punct && matches!(tx, "(" | ")" | "[" | "]" | "{" | "}")) || (tk == K::Word && CLOSERS.contains(&tx));
                if !deletable {
                    continue;
                }
                (format!("{}{}", &text[..ts], &text[te..]), ts, "deleted-delimiter", false)
            }
            7 => {
                if text[ts..].contains('"') {
                    continue;
                }
                (format!("{}\"unterminated {}", &text[..ts], &text[ts..]), ts, "unterminated-string", true)
            }
            8 => {
                // (after a `/` the inserted `/*` would read as a line comment)
                if text[ts..].contains("*/") || text[..ts].ends_with('/') {
                    continue;
                }
                (format!("{}/* unterminated {}", &text[..ts], &text[ts..]), ts, "unterminated-comment", true)
            }
            _ => (format!("{}\\\n{}", &text[..ts], &text[ts..]), ts, "lone-backslash", true),
        };
        // with or without include indirection: the tail (complete descriptions) moves into an included file
        let (files, fault_file, fault_in_file): (Vec<(PathBuf, String)>, PathBuf, usize) = match split {
            Some(sp) if rng.chance(1, 2) && kind != "deleted-delimiter" => {
                // mutant offsets: bytes before the fault are unchanged
                let msp = if fault_off < sp { sp + (mutant.len() - text.len()) } else { sp };
                let inc = dir.join("tail.svh");
                // angle brackets: no quote may follow an unterminated-string fault in the same file
                let head = format!("{}\n`include <tail.svh>\n", &mutant[..msp]);
                let mut tail = mutant[msp..].to_string();
                // one time in two the sizes are made to line up: the included file is exactly as long as the offset just
                // behind the directive in the including file (offsets of the two files then continue each other, which
                // is when a table that coalesces neighbours must still keep the files apart); blanks at the end of the
                // included file do not move the fault
                let behind = head.len() - 1;
                if tail.len() < behind && rng.chance(1, 2) {
                    tail.push_str(&" ".repeat(behind - tail.len()));
                    ctx.count("include_length_lines_up_with_directive_end", 1);
                }
                if fault_off < sp {
                    (vec![(top.clone(), head), (inc.clone(), tail)], top.clone(), fault_off)
                } else {
                    (vec![(top.clone(), head), (inc.clone(), tail)], inc.clone(), fault_off - sp)
                }
            }
            None if rng.chance(1, 4) && kind != "deleted-delimiter" => {
                let inc = dir.join("all.svh");
                let fixed = "// top\n`include \"all.svh\"".len();
                let top_text = if mutant.len() > fixed && rng.chance(1, 2) {
                    // same alignment, made by padding the comment in front of the directive
                    ctx.count("include_length_lines_up_with_directive_end", 1);
                    format!("// top{}\n`include \"all.svh\"\n", "x".repeat(mutant.len() - fixed))
                } else {
                    "// top\n`include \"all.svh\"\n".to_string()
                };
                (vec![(top.clone(), top_text), (inc.clone(), mutant.clone())], inc.clone(), fault_off)
            }
            _ => (vec![(top.clone(), mutant.clone())], top.clone(), fault_off),
        };
        for (p, t) in &files {
            let _ = std::fs::write(p, t);
        }
        let through_include = fault_file != top;
        ctx.count("mutants", 1);
        ctx.count(&format!("fault:{}", kind), 1);
        if through_include {
            ctx.count("faults_inside_included_file", 1);
        }
        let witness = |d: &str| {
            Obj::new()
                .raw("files", &json_arr(files.iter().map(|(p, t)| Obj::new().s("path", &p.to_string_lossy()).s("text", t).done())))
                .s("fault", kind)
                .s("fault_file", &fault_file.to_string_lossy())
                .n("fault_offset", fault_in_file as u64)
                .s("detail", d)
                .done()
        };
        let r = parse_file(Gram::Sv, &top, &cfg);
        let r = match r {
            Err(_) => {
                ctx.inconclusive("lib_panic");
                continue;
            }
            Ok(r) => r,
        };
        match r {
            Ok(_) => {
                // K3 triage
                hooks::set_capacity(None);
                let again = parse_file(Gram::Sv, &top, &cfg);
                hooks::set_capacity(Some(hooks::DEFAULT_CAPACITY));
                let (sig, note) = crate::memo_cfg::attribute(env, if matches!(again, Ok(Err(_))) { "K3" } else { "" });
                let m = format!("a source with fault {} at offset {} of {} is accepted{}", kind, fault_in_file, fault_file.display(), note);
                ctx.violation("fault-accepted", &sig, &m, witness(&m));
            }
            Err(e) => {
                // unwrap Include for preprocessor-level faults inside includes
                let mut inner = &e;
                let mut wraps = 0;
                while let Error::Include { source } = inner {
                    inner = &**source;
                    wraps += 1;
                }
                let loc = match (expect_pp, inner) {
                    (false, Error::Parse(l)) if wraps == 0 => l,
                    (true, Error::Preprocess(l)) if wraps == (through_include as usize) => l,
                    _ => {
                        let m = format!(
                            "fault {} reported as {:?}, expected {}",
                            kind,
                            e,
                            if expect_pp { "Error::Preprocess (wrapped in Include when inside an included file)" } else { "Error::Parse" }
                        );
                        ctx.violation("wrong-error-kind", "", &m, witness(&m));
                        continue;
                    }
                };
                if kind == "deleted-delimiter" {
                    ctx.count("deletions_rejected", 1);
                    continue;
                }
                match loc {
                    None => {
                        let m = format!("fault {}: error carries no location", kind);
                        ctx.violation("no-location", "", &m, witness(&m));
                    }
                    Some((p, pos)) => {
                        if p != &fault_file {
                            let m = format!("fault {} is in {} but the error names {}", kind, fault_file.display(), p.display());
                            ctx.violation("wrong-file", "", &m, witness(&m));
                        } else if *pos > fault_in_file {
                            let m = format!("fault {} at offset {} of {} reported at offset {} (after the fault)", kind, fault_in_file, p.display(), pos);
                            ctx.violation("location-after-fault", "", &m, witness(&m));
                        } else {
                            ctx.count("locations_ok", 1);
                            if *pos == fault_in_file {
                                ctx.count("locations_exact", 1);
                            }
                            ctx.nontrivial(hash_strs(&[&mutant, kind, &format!("{}", through_include)]));
                            if ctx.want_sample() {
                                ctx.sample(
                                    Obj::new()
                                        .s("fault", kind)
                                        .s("around", &clip(&mutant[fault_off.saturating_sub(40).min(mutant.len())..], 100))
                                        .n("fault_offset", fault_in_file as u64)
                                        .n("reported_offset", *pos as u64)
                                        .b("inside_included_file", through_include)
                                        .done(),
                                );
                            }
                        }
                    }
                }
            }
        }
    }
    let _ = std::fs::remove_dir_all(&dir);
}
