//! One workload + verdict module per property.

use crate::ctx::{Ctx, Tier};
use crate::Env;

pub mod c01;
pub mod c02;
pub mod c16;

/// total number of cases over all shards
pub fn cases(prop: &str, tier: Tier) -> u64 {
    match prop {
        "C01" => c01::cases(tier),
        "C02" => c02::cases(tier),
        "C16" => c16::cases(tier),
        _ => panic!("unknown property {}", prop),
    }
}

pub fn run_case(prop: &str, env: &Env, ctx: &mut Ctx, idx: u64) {
    match prop {
        "C01" => c01::run_case(env, ctx, idx),
        "C02" => c02::run_case(env, ctx, idx),
        "C16" => c16::run_case(env, ctx, idx),
        _ => panic!("unknown property {}", prop),
    }
}
