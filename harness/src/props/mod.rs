//! One workload + verdict module per property.

use crate::ctx::{Ctx, Tier};
use crate::Env;

pub mod c01;
pub mod c02;
pub mod c03;
pub mod c04;
pub mod c05;
pub mod c06;
pub mod c07;
pub mod c08;
pub mod c09;
pub mod c10;
pub mod c11;
pub mod c12;
pub mod c13;
pub mod c14;
pub mod c15;
pub mod c16;
pub mod c17;
pub mod c18;
pub mod c19;
pub mod c20;

/// total number of cases over all shards
pub fn cases(prop: &str, tier: Tier) -> u64 {
    match prop {
        "C01" => c01::cases(tier),
        "C02" => c02::cases(tier),
        "C03" => c03::cases(tier),
        "C04" => c04::cases(tier),
        "C05" => c05::cases(tier),
        "C06" => c06::cases(tier),
        "C07" => c07::cases(tier),
        "C08" => c08::cases(tier),
        "C09" => c09::cases(tier),
        "C10" => c10::cases(tier),
        "C11" => c11::cases(tier),
        "C12" => c12::cases(tier),
        "C13" => c13::cases(tier),
        "C14" => c14::cases(tier),
        "C15" => c15::cases(tier),
        "C16" => c16::cases(tier),
        "C17" => c17::cases(tier),
        "C18" => c18::cases(tier),
        "C19" => c19::cases(tier),
        "C20" => c20::cases(tier),
        _ => panic!("unknown property {}", prop),
    }
}

pub fn run_case(prop: &str, env: &Env, ctx: &mut Ctx, idx: u64) {
    match prop {
        "C01" => c01::run_case(env, ctx, idx),
        "C02" => c02::run_case(env, ctx, idx),
        "C03" => c03::run_case(env, ctx, idx),
        "C04" => c04::run_case(env, ctx, idx),
        "C05" => c05::run_case(env, ctx, idx),
        "C06" => c06::run_case(env, ctx, idx),
        "C07" => c07::run_case(env, ctx, idx),
        "C08" => c08::run_case(env, ctx, idx),
        "C09" => c09::run_case(env, ctx, idx),
        "C10" => c10::run_case(env, ctx, idx),
        "C11" => c11::run_case(env, ctx, idx),
        "C12" => c12::run_case(env, ctx, idx),
        "C13" => c13::run_case(env, ctx, idx),
        "C14" => c14::run_case(env, ctx, idx),
        "C15" => c15::run_case(env, ctx, idx),
        "C16" => c16::run_case(env, ctx, idx),
        "C17" => c17::run_case(env, ctx, idx),
        "C18" => c18::run_case(env, ctx, idx),
        "C19" => c19::run_case(env, ctx, idx),
        "C20" => c20::run_case(env, ctx, idx),
        _ => panic!("unknown property {}", prop),
    }
}
