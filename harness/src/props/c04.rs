//! C04 — conditional compilation; C05 — macro expansion.  Both run G-PP programs against the
//! reference semantics; they differ in workload profile.

use crate::ctx::{Ctx, Tier};
use crate::gen_pp::*;
use crate::mon_pp::*;
use crate::util::*;
use crate::api::Cfg;
use crate::Env;

pub fn cases(tier: Tier) -> u64 {
    match tier {
        Tier::Quick => 240000,
        Tier::Thorough => 5000000,
        Tier::Tiny => 16,
    }
}

pub fn profile_c04(rng: &mut Rng) -> GenOpts {
    GenOpts {
        max_depth: 5,
        cond_weight: 35,
        macro_weight: 20,
        function_macros: rng.chance(1, 3),
        misuse: rng.chance(1, 6),
        predefined_names: true,
        kept_directives: true,
        line_file: true,
        dollar_names: false,
        undefineall: true,
        strings_comments: true,
        sv_cov: true,
        define_in_body: true,
    }
}

pub fn profile_c05(rng: &mut Rng) -> GenOpts {
    GenOpts {
        max_depth: 2,
        cond_weight: 6,
        macro_weight: 55,
        function_macros: true,
        misuse: rng.chance(1, 4),
        predefined_names: false,
        kept_directives: rng.chance(1, 3),
        line_file: false,
        dollar_names: rng.chance(1, 8),
        undefineall: false,
        strings_comments: true,
        sv_cov: false,
        define_in_body: true,
    }
}

pub fn run_case(_env: &Env, ctx: &mut Ctx, idx: u64) {
    let mut rng = Rng::derive(ctx.seed, 4, idx, 0);
    let mut o = profile_c04(&mut rng);
    if rng.chance(1, 6) {
        // conditionals around and inside real included files (dead includes must not even be looked for)
        let dir = ctx.tmpdir.join(format!("c04-{}", idx));
        o.max_depth = 3;
        o.misuse = false;
        o.sv_cov = false; // every included file re-installs the SV_COV constants
        let prog = multi_file(&mut rng, o, 3);
        let rendered = render(&prog, &mut rng);
        let cfg = Cfg { include_paths: vec![dir.clone()], ..Cfg::default() };
        let setup = Setup { prog, rendered, dir: Some(dir.clone()), cfg, top: 0 };
        setup.write_files();
        ctx.count("include_graph_programs", 1);
        check_setup(ctx, &setup, "C04");
        let _ = std::fs::remove_dir_all(&dir);
        return;
    }
    run_with(ctx, &mut rng, o, "C04");
}

pub fn run_with(ctx: &mut Ctx, rng: &mut Rng, o: GenOpts, which: &str) {
    let n = rng.range(2, 7);
    let prog = single_file(rng, o, n);
    let rendered = render(&prog, rng);
    let cfg = Setup::cfg_with_predefs(&prog, Cfg::default());
    let setup = Setup { prog, rendered, dir: None, cfg, top: 0 };
    check_setup(ctx, &setup, which);
}

fn features(items: &[Item], f: &mut [u64; 8]) {
    for it in items {
        match it {
            Item::Cond { chain, els, .. } => {
                f[0] += 1;
                f[1] += (chain.len() - 1) as u64;
                if els.is_some() {
                    f[2] += 1;
                }
                for (_, b) in chain {
                    features(b, f);
                }
                if let Some(e) = els {
                    features(e, f);
                }
            }
            Item::Define(m) => {
                f[3] += 1;
                if m.formals.is_some() {
                    f[4] += 1;
                }
            }
            Item::Usage { .. } => f[5] += 1,
            Item::Undef(_) | Item::UndefAll => f[6] += 1,
            Item::Include { .. } => f[7] += 1,
            _ => {}
        }
    }
}

pub fn check_setup(ctx: &mut Ctx, setup: &Setup, which: &str) {
    ctx.count("programs", 1);
    let mut f = [0u64; 8];
    for file in &setup.prog.files {
        features(&file.items, &mut f);
    }
    for (k, n) in ["conditionals", "elsif_branches", "else_branches", "defines", "function_like_defines", "usages", "undefs", "includes"].iter().zip(f.iter()) {
        ctx.count(k, *n);
    }
    let obs = match setup.run() {
        Err(p) => {
            ctx.inconclusive("lib_panic");
            let _ = p;
            return;
        }
        Ok(r) => observe(r),
    };
    let strict = setup.expect(Quirks::default());
    match &strict.error {
        Some(e) => {
            ctx.count("expected_errors", 1);
            ctx.seen("expected_error_kinds", &format!("{:?}", e.kind).split('(').next().unwrap_or("").to_string());
        }
        None => {
            ctx.count("expected_ok", 1);
            ctx.count("expected_tokens", strict.tokens.len() as u64);
            ctx.count("live_payload_tokens", strict.live_payload.len() as u64);
            ctx.count("dead_payload_tokens", strict.dead_payload.len() as u64);
        }
    }
    let d = compare_crlf(&strict, &obs, setup.rendered.crlf);
    let mut h = Fnv::new();
    for (_, t) in &setup.rendered.files {
        h.str(t);
    }
    h.str(&format!("{:?}", setup.prog.predefs));
    match d {
        Diff::None => {
            ctx.count("agree_with_reference", 1);
            if f[0] + f[5] > 0 {
                ctx.nontrivial(h.0);
            }
            if ctx.want_sample() && f[0] + f[5] > 1 {
                ctx.sample(
                    Obj::new()
                        .s("source", &clip(&setup.rendered.files[setup.top].1, 500))
                        .s("predefs", &format!("{:?}", setup.prog.predefs))
                        .s("expected_error", &format!("{:?}", strict.error))
                        .raw("expected_tokens", &json_arr(strict.tokens.iter().take(30).map(|t| json_str(t))))
                        .done(),
                );
            }
        }
        other => {
            // model-quirk signatures: does a known defect reproduce the observation exactly?
            let mut sig = String::new();
            for (name, q) in [("K2", Quirks { k2: true, d12: false }), ("D12", Quirks { k2: false, d12: true }), ("K2+D12", Quirks { k2: true, d12: true })] {
                let e = setup.expect(q);
                let dq = compare_crlf(&e, &obs, setup.rendered.crlf);
                if ctx.verbose {
                    eprintln!("quirk {}: {:?}", name, dq);
                }
                if let Diff::None = dq {
                    sig = name.to_string();
                    break;
                }
            }
            let (kind, msg) = match other {
                Diff::Error(m) => ("error", m),
                Diff::Tokens(m) => ("tokens", m),
                Diff::DeadPayload(m) => ("dead-branch-effect", m),
                Diff::TableKeys(m) => ("table-keys", m),
                Diff::TableDetail(m) => ("table-detail", m),
                Diff::None => unreachable!(),
            };
            let _ = which;
            ctx.violation(kind, &sig, &msg, setup.witness(&msg));
        }
    }
}
