//! C15 — incomplete mode never fails and agrees with strict mode.

use crate::api::*;
use crate::ctx::{Ctx, Tier};
use crate::mon_tile;
use crate::mutate;
use crate::util::*;
use crate::workload;
use crate::Env;
use std::path::Path;
use sv_parser::*;
use sv_parser_parser::verif_hooks as hooks;

pub fn cases(tier: Tier) -> u64 {
    match tier {
        Tier::Quick => 20000,
        Tier::Thorough => 400000,
        Tier::Tiny => 32,
    }
}

const JUNK: &[&str] = &["\n§ junk", "\n\u{1}", "\n¤¤ endmodule", "\n\u{7f}x", "\n§"];
/// Tails that lex but cannot be parsed: the first token can neither begin a description nor continue a complete
/// one (a colon is never followed by an identifier here, so it is not an end label).  They look like the
/// beginning of something the last description might want to take in (end label, more ports, another item).
const JUNK_LEXABLE: &[&str] = &[
    ": ;", ":", ": )", ": 1 ;", ":\n: ;", ":: ;", ") ;", "] ;", "} ;", ", x ;", "= 1 ;", ". x ;", "1 ;", "\"s\" ;", "+ x ;", "# 1 ;", "? :",
    "endmodule", "end", "endcase", "endfunction : f", "else ;", "join",
];

fn run_pp(gram: Gram, src: &str, incomplete: bool) -> Result<Result<(SyntaxTree, String), Error>, LibPanic> {
    // two-step so that the preprocessed text is known
    let cfg = Cfg::default();
    match pp_str(src, Path::new("c15.sv"), &cfg)? {
        Err(e) => Ok(Err(e)),
        Ok((pt, d)) => {
            let text = pt.text().to_string();
            match parse_pp(gram, pt, d, incomplete)? {
                Ok((t, _)) => Ok(Ok((t, text))),
                Err(e) => Ok(Err(e)),
            }
        }
    }
}

/// does strict parsing of the prefix that the incomplete-mode tree covers give that same tree?  (None: no verdict)
fn prefix_agrees(gram: Gram, src: &str) -> Option<bool> {
    use sv_parser_parser::{lib_parser, sv_parser, Span, SpanInfo};
    let (itree, text) = match run_pp(gram, src, true) {
        Ok(Ok(x)) => x,
        _ => return None,
    };
    let st = mon_tile::check_leaves(&itree, &text, false).ok()?;
    let prefix = &text[..st.end];
    let r = lib(|| {
        let span = Span::new_extra(prefix, SpanInfo::default());
        match gram {
            Gram::Sv => sv_parser(span).map(|(_, t)| exact_skeleton(&t)).map_err(|_| ()),
            Gram::Lib => lib_parser(span).map(|(_, t)| exact_skeleton(&t)).map_err(|_| ()),
        }
    })
    .ok()?;
    Some(matches!(r, Ok(s) if s == exact_skeleton(&itree)))
}

pub fn run_case(env: &Env, ctx: &mut Ctx, idx: u64) {
    let mut rng = Rng::derive(ctx.seed, 15, idx, 0);
    let mut inp = workload::tree_input(env, &mut rng);
    // more rejected / partially valid inputs than the shared workload has
    match rng.below(10) {
        0 | 1 => {
            inp.text = mutate::token_mutate(&inp.text, &mut rng);
            inp.kind = "tokmut";
        }
        2 => {
            inp.text = mutate::byte_mutate(&inp.text, &mut rng);
            inp.kind = "bytemut";
        }
        3 => {
            // valid descriptions followed by a broken one
            let extra = mutate::token_mutate(env.corpus.pick_program(&mut rng), &mut rng);
            inp.text = format!("{}\n{}", inp.text, extra);
            inp.kind = "valid+broken";
        }
        _ => {}
    }
    // keywords directives that only the preprocessor's own parse of the raw text sees (branch not taken):
    // the preprocessed text has none of them, so they must not matter to either mode
    if rng.chance(1, 8) {
        let pre = *rng.pick(&[
            "`ifdef ZQ_UNDEF\n`begin_keywords \"1364-2001\"\n`endif\n",
            "`ifdef ZQ_UNDEF\n`begin_keywords \"1364-1995\"\n`begin_keywords \"1364-2005\"\n`endif\n",
            "`ifndef ZQ_UNDEF\n`else\n`begin_keywords \"1364-2001-noconfig\"\n`endif\n",
            "`ifdef ZQ_UNDEF\n`end_keywords\n`begin_keywords \"1800-2005\"\n`endif\n",
        ]);
        inp.text = format!("{}{}", pre, inp.text);
        ctx.count("inputs_with_keywords_directive_in_dead_branch", 1);
    }
    ctx.count("inputs", 1);
    let src = inp.text.clone();
    let gram = inp.gram;
    let witness = |d: &str| Obj::new().s("input", &src).s("grammar", if gram == Gram::Sv { "sv" } else { "lib" }).s("kind", inp.kind).s("detail", d).done();

    let inc = match run_pp(gram, &src, true) {
        Err(_) => {
            ctx.inconclusive("lib_panic");
            return;
        }
        Ok(x) => x,
    };
    let (itree, text) = match inc {
        Err(Error::Parse(o)) => {
            let m = format!("allow_incomplete returned Error::Parse({:?})", o);
            ctx.violation("incomplete-parse-error", "", &m, witness(&m));
            return;
        }
        Err(_) => {
            ctx.count("non_parse_errors", 1);
            return;
        }
        Ok(x) => x,
    };
    ctx.count("incomplete_trees", 1);
    // lossless prefix
    let st = match mon_tile::check_leaves(&itree, &text, false) {
        Err(m) => {
            ctx.violation("incomplete-tiling", "", &m, witness(&m));
            return;
        }
        Ok(st) => st,
    };
    let iskel = exact_skeleton(&itree);
    if st.end < text.len() {
        ctx.count("proper_prefix_trees", 1);
    }
    // the covered prefix is made of complete top-level descriptions: strict parsing of exactly
    // that prefix succeeds and gives the same tree (raw parser: the text is already preprocessed)
    {
        use sv_parser_parser::{lib_parser, sv_parser, Span, SpanInfo};
        let prefix = &text[..st.end];
        let check = |unbounded: bool| -> Result<Result<Skel, ()>, LibPanic> {
            if unbounded {
                hooks::set_capacity(None);
            }
            let r = lib(|| {
                let span = Span::new_extra(prefix, SpanInfo::default());
                match gram {
                    Gram::Sv => sv_parser(span).map(|(_, t)| exact_skeleton(&t)).map_err(|_| ()),
                    Gram::Lib => lib_parser(span).map(|(_, t)| exact_skeleton(&t)).map_err(|_| ()),
                }
            });
            if unbounded {
                hooks::set_capacity(Some(hooks::DEFAULT_CAPACITY));
            }
            r
        };
        match check(false) {
            Err(_) => ctx.inconclusive("lib_panic"),
            Ok(r) => {
                ctx.count("prefix_reparsed", 1);
                let bad = match &r {
                    Ok(s) => *s != iskel,
                    Err(()) => true,
                };
                if bad {
                    let m = format!(
                        "the prefix [0, {}) covered by the incomplete-mode tree is {} by strict parsing",
                        st.end,
                        if r.is_err() { "rejected" } else { "parsed to a different tree" }
                    );
                    // K3 triage: does the difference vanish with an unbounded memo on both sides?
                    hooks::set_capacity(None);
                    let i2 = run_pp(gram, &src, true);
                    hooks::set_capacity(Some(hooks::DEFAULT_CAPACITY));
                    let agree_unbounded = match (i2, check(true)) {
                        (Ok(Ok((t2, _))), Ok(Ok(s2))) => exact_skeleton(&t2) == s2,
                        _ => false,
                    };
                    // K4 triage: a keywords directive changes the keyword set as a parse side effect that backtracking does
                    // not undo, so text in front of the directive can end up parsed under the set it selects; attributed
                    // when the source holds such directives and blanking exactly them removes the disagreement
                    let has_kw = src.contains("`begin_keywords") || src.contains("`end_keywords");
                    let k4 = !agree_unbounded && has_kw && prefix_agrees(gram, &crate::props::c17::strip_keywords_directives(&src)) == Some(true);
                    let (sig, note) = crate::memo_cfg::attribute(env, if agree_unbounded { "K3" } else if k4 { "K4" } else { "" });
                    ctx.violation("prefix-not-complete-descriptions", &sig, &format!("{}{}", m, note), witness(&m));
                }
            }
        }
    }
    // agreement with strict mode
    match run_pp(gram, &src, false) {
        Err(_) => ctx.inconclusive("lib_panic"),
        Ok(Err(_)) => {
            ctx.count("strict_rejected", 1);
        }
        Ok(Ok((stree, _))) => {
            ctx.count("strict_accepted", 1);
            let sskel = exact_skeleton(&stree);
            if sskel != iskel {
                let m = format!("strict and incomplete mode return different trees: strict {:?}, incomplete {:?}", sskel, iskel);
                hooks::set_capacity(None);
                let a = run_pp(gram, &src, false);
                let b = run_pp(gram, &src, true);
                hooks::set_capacity(Some(hooks::DEFAULT_CAPACITY));
                let agree = match (a, b) {
                    (Ok(Ok((a, _))), Ok(Ok((b, _)))) => exact_skeleton(&a) == exact_skeleton(&b),
                    _ => false,
                };
                let (sig, note) = crate::memo_cfg::attribute(env, if agree { "K3" } else { "" });
                ctx.violation("strict-vs-incomplete", &sig, &format!("{}{}", m, note), witness(&m));
            }
            // junk suffix leaves the tree unchanged, white space aside
            let j: String = if rng.chance(1, 2) {
                rng.pick(JUNK).to_string()
            } else {
                ctx.count("junk_lexable", 1);
                format!("{}{}{}", rng.pick(&["\n", " ", "\t", "\r\n", " /* c */ "]), rng.pick(JUNK_LEXABLE), rng.pick(&["", "\n", " "]))
            };
            let j = j.as_str();
            let with_junk = format!("{}{}", src, j);
            match run_pp(gram, &with_junk, true) {
                Err(_) => ctx.inconclusive("lib_panic"),
                Ok(Err(Error::Parse(o))) => {
                    let m = format!("allow_incomplete returned Error::Parse({:?}) on accepted source + junk {:?}", o, j);
                    ctx.violation("incomplete-parse-error", "", &m, witness(&m));
                }
                Ok(Err(_)) => ctx.count("junk_pp_error", 1),
                Ok(Ok((jt, jtext))) => {
                    ctx.count("junk_suffix_checked", 1);
                    let stext = {
                        let mut s = String::new();
                        for n in &stree {
                            if let RefNode::Locate(l) = n {
                                s.push_str(stree.get_str(l).unwrap_or(""));
                            }
                        }
                        s
                    };
                    let a = layout_free(&stree, &stext, false);
                    let b = layout_free(&jt, &jtext, false);
                    if a != b {
                        let k = a.iter().zip(b.iter()).position(|(x, y)| x != y).unwrap_or(a.len().min(b.len()));
                        let m = format!(
                            "appending junk {:?} changes the tree (white space aside) at skeleton item {}: {:?} vs {:?} (lengths {} / {})",
                            j,
                            k,
                            a.get(k),
                            b.get(k),
                            a.len(),
                            b.len()
                        );
                        hooks::set_capacity(None);
                        let a2 = run_pp(gram, &src, false);
                        let b2 = run_pp(gram, &with_junk, true);
                        hooks::set_capacity(Some(hooks::DEFAULT_CAPACITY));
                        let agree = match (a2, b2) {
                            (Ok(Ok((x, xt))), Ok(Ok((y, yt)))) => layout_free(&x, &xt, false) == layout_free(&y, &yt, false),
                            _ => false,
                        };
                        let (sig, note) = crate::memo_cfg::attribute(env, if agree { "K3" } else { "" });
                        ctx.violation("junk-suffix", &sig, &format!("{}{}", m, note), witness(&m));
                    }
                }
            }
        }
    }
    ctx.nontrivial(hash_strs(&[&src, if gram == Gram::Sv { "sv" } else { "lib" }]));
    if ctx.want_sample() {
        ctx.sample(Obj::new().s("input", &clip(&src, 300)).s("kind", inp.kind).n("tiled_prefix", st.end as u64).n("text_bytes", text.len() as u64).done());
    }
}
