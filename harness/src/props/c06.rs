//! C06 — directive-free text passes through unchanged; outputs are fixed points.

use crate::api::*;
use crate::ctx::{Ctx, Tier};
use crate::gen_lex;
use crate::gen_pp;
use crate::mon_pp::Setup;
use crate::props::c04;
use crate::util::*;
use crate::Env;
use std::path::Path;
use sv_parser::Error;

pub fn cases(tier: Tier) -> u64 {
    match tier {
        Tier::Quick => 400000,
        Tier::Thorough => 8000000,
        Tier::Tiny => 32,
    }
}

pub fn run_case(env: &Env, ctx: &mut Ctx, idx: u64) {
    let mut rng = Rng::derive(ctx.seed, 6, idx, 0);
    match rng.below(10) {
        0..=5 => identity(ctx, gen_lex::soup(&mut rng), "soup"),
        6 => {
            // directive-free corpus programs
            let p = env.corpus.pick_program(&mut rng);
            if !p.contains('`') {
                identity(ctx, p.to_string(), "corpus");
            }
        }
        _ => fixed_point(ctx, &mut rng),
    }
}

fn identity(ctx: &mut Ctx, src: String, kind: &str) {
    let fault = gen_lex::fault_of(&src);
    if fault.is_none() && gen_lex::has_directive(&src) {
        // a fault-making fragment paired up with a later quote and exposed a backtick: not directive-free
        ctx.count("skipped_not_directive_free", 1);
        return;
    }
    if fault.is_some() && src.contains('`') {
        // cannot tell whether the backtick is inside the unterminated construct
        ctx.count("skipped_not_directive_free", 1);
        return;
    }
    ctx.count("identity_inputs", 1);
    let path = Path::new("c06.sv");
    let witness = |d: &str| Obj::new().s("input", &src).s("kind", kind).s("detail", d).done();
    match pp_str(&src, path, &Cfg::default()) {
        Err(_) => ctx.inconclusive("lib_panic"),
        Ok(Err(e)) => match (&e, &fault) {
            (Error::Preprocess(_), Some(_)) => ctx.count("rejected_with_permitted_fault", 1),
            _ => {
                let m = format!("directive-free text rejected with {:?}; lexical fault seen by the scanner: {:?}", e, fault);
                ctx.violation("identity-rejected", "", &m, witness(&m));
            }
        },
        Ok(Ok((t, _))) => {
            if let Some(f) = &fault {
                // accepted although the scanner sees a fault: the statement only says such text *may* be rejected
                ctx.count("accepted_with_fault", 1);
                let _ = f;
            }
            let text = t.text();
            if text == src {
                ctx.count("identical", 1);
                // every output offset maps to the same offset of the same file
                for i in 0..text.len() {
                    match t.origin(i) {
                        Some((p, o)) if o == i && p.as_path() == path => {}
                        other => {
                            let m = format!("origin({}) = {:?}, expected (c06.sv, {})", i, other.map(|(p, o)| (p.clone(), o)), i);
                            ctx.violation("identity-origin", "", &m, witness(&m));
                            break;
                        }
                    }
                }
                ctx.count("origin_positions_checked", text.len() as u64);
                ctx.nontrivial(hash_str(&src));
                if ctx.want_sample() && src.len() > 20 {
                    ctx.sample(Obj::new().s("input", &clip(&src, 200)).s("kind", kind).s("result", "identical, identity origins").done());
                }
            } else {
                // K1 model quirk
                let k1 = if fault.is_none() { gen_lex::k1_model(&src) } else { None };
                let m = format!("output differs from directive-free input: {:?}", clip(text, 300));
                if k1.as_deref() == Some(text) {
                    ctx.violation("identity-text", "K1", &m, witness(&m));
                } else {
                    ctx.violation("identity-text", "", &format!("{} (K1 model predicts {:?})", m, k1.map(|x| clip(&x, 300))), witness(&m));
                }
            }
        }
    }
}

fn fixed_point(ctx: &mut Ctx, rng: &mut Rng) {
    let o = if rng.chance(1, 2) { c04::profile_c04(rng) } else { c04::profile_c05(rng) };
    let n = rng.range(2, 7);
    let prog = gen_pp::single_file(rng, o, n);
    let rendered = gen_pp::render(&prog, rng);
    // both runs with the same flags; with strip_comments the first output has no comment left to strip
    let cfg = Setup::cfg_with_predefs(&prog, Cfg { strip_comments: rng.chance(1, 3), ..Cfg::default() });
    if cfg.strip_comments {
        ctx.count("fixed_point_inputs_strip_comments", 1);
    }
    let src = &rendered.files[0].1;
    let path = Path::new("top.sv");
    let first = match pp_str(src, path, &cfg) {
        Ok(Ok((t, _))) => t.text().to_string(),
        Ok(Err(_)) => {
            ctx.count("fixed_point_first_run_error", 1);
            return;
        }
        Err(_) => {
            ctx.inconclusive("lib_panic");
            return;
        }
    };
    if gen_lex::has_k1_shape(&first) {
        // expansions produced a literal followed by trivia: finding K1 (exactly modelled on the
        // directive-free sub-workload) would double it on the second run
        ctx.count("fixed_point_skipped_k1_shaped_output", 1);
        return;
    }
    ctx.count("fixed_point_inputs", 1);
    let witness = |d: &str| Obj::new().s("source", src).s("first_output", &first).s("predefs", &format!("{:?}", prog.predefs)).b("strip_comments", cfg.strip_comments).s("detail", d).done();
    match pp_str(&first, path, &cfg) {
        Err(_) => ctx.inconclusive("lib_panic"),
        Ok(Err(e)) => {
            let m = format!("preprocessing the output of a successful run again fails with {:?}", e);
            ctx.violation("fixed-point-error", "", &m, witness(&m));
        }
        Ok(Ok((t2, _))) => {
            if t2.text() == first {
                ctx.count("fixed_points", 1);
                if first.contains('`') {
                    ctx.count("fixed_points_with_kept_directives", 1);
                }
                ctx.nontrivial(hash_str(src));
            } else {
                let a = first.as_bytes();
                let b = t2.text().as_bytes();
                let k = a.iter().zip(b.iter()).position(|(x, y)| x != y).unwrap_or(a.len().min(b.len()));
                let m = format!(
                    "output is not a fixed point: second run differs at byte {}: {:?} vs {:?}",
                    k,
                    clip(&String::from_utf8_lossy(&a[k.saturating_sub(30)..(k + 30).min(a.len())]), 80),
                    clip(&String::from_utf8_lossy(&b[k.saturating_sub(30)..(k + 30).min(b.len())]), 80)
                );
                ctx.violation("fixed-point", "", &m, witness(&m));
            }
        }
    }
}
