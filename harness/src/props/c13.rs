//! C13 — reserved words of the keyword set in force are never identifiers.

use crate::api::*;
use crate::ctx::{Ctx, Tier};
use crate::gen_sv::{self, TK};
use crate::mon_kw::{self, KwStats, KwTables, VERSIONS};
use crate::util::*;
use crate::workload;
use crate::Env;
use std::path::Path;
use sv_parser::*;
use sv_parser_parser::verif_hooks as hooks;

const SWEEP_BATCH: u64 = 24;

pub fn cases(tier: Tier) -> u64 {
    match tier {
        Tier::Quick => 24000,
        Tier::Thorough => 400000,
        Tier::Tiny => 8,
    }
}

fn all_words(t: &KwTables) -> Vec<String> {
    let mut v: Vec<String> = t.set_of("1800-2017").iter().cloned().collect();
    v.sort();
    v
}

struct Region {
    text: String,
    /// (token index, byte offset) of every token of the v95 program
    spans: Vec<(usize, usize)>,
    /// version in force for each module
    versions: Vec<Option<&'static str>>,
}

fn render_regions(p: &gen_sv::V95Program, rng: &mut Rng, replace: Option<(usize, &str)>) -> Region {
    // layout decisions must not depend on `replace`: use a forked stream
    let mut r = rng.clone();
    let mut text = String::new();
    let mut spans = vec![(0usize, 0usize); p.toks.len()];
    let outer: Option<&'static str> = if r.chance(1, 4) { Some(VERSIONS[r.below(VERSIONS.len())].0) } else { None };
    for d in ["`resetall", "`timescale 1ns/1ps", "`celldefine", "`default_nettype wire"] {
        if r.chance(1, 4) {
            text.push_str(d);
            text.push('\n');
        }
    }
    if let Some(v) = outer {
        text.push_str(&format!("`begin_keywords \"{}\"\n", v));
    }
    let mut versions = Vec::new();
    let mut left_open = false;
    for (mi, (s, e)) in p.module_ranges.iter().enumerate() {
        let own: Option<&'static str> = if r.chance(1, 2) { Some(VERSIONS[r.below(VERSIONS.len())].0) } else { None };
        if let Some(v) = own {
            text.push_str(&format!("`begin_keywords \"{}\"{}", v, *r.pick(&["\n", " // region\n", "\n\n"])));
        }
        versions.push(own.or(outer));
        for i in *s..*e {
            let t = &p.toks[i];
            let tx: &str = match replace {
                Some((ri, w)) if ri == i => w,
                _ => &t.text,
            };
            spans[i] = (text.len(), text.len() + tx.len());
            text.push_str(tx);
            let nl = t.kind == TK::Sym && t.text == ";" || t.text == "begin" || t.text == "end";
            text.push_str(if nl && r.chance(2, 3) { "\n" } else { " " });
        }
        text.push('\n');
        // the last region of a text may stay open (the text ends inside it)
        let last = mi + 1 == p.module_ranges.len();
        let leave_open = last && r.chance(1, 6);
        left_open = leave_open;
        if own.is_some() && !leave_open {
            text.push_str("`end_keywords\n");
        }
        if mi + 1 < p.module_ranges.len() && r.chance(1, 5) {
            text.push_str(*r.pick(&["`resetall\n", "`timescale 1ns/1ns\n", "`celldefine\n"]));
        }
    }
    if outer.is_some() && !left_open {
        text.push_str("`end_keywords\n");
    }
    Region { text, spans, versions }
}

fn parse(text: &str) -> Result<Result<SyntaxTree, Error>, LibPanic> {
    parse_str(Gram::Sv, text, Path::new("c13.sv"), &Cfg::default()).map(|r| r.map(|x| x.0))
}

/// calls that end with keywords regions open or are rejected inside one (the next call starts from the default set)
const EARLIER: &[&str] = &[
    "`begin_keywords \"1364-1995\"\nmodule m; endmodule\n",
    "`begin_keywords \"1364-2001\"\nmodule m; wire logic; endmodule\n",
    "`begin_keywords \"1364-2001-noconfig\"\nmodule m; wire w = ; endmodule\n",
    "`begin_keywords \"1800-2005\"\n`begin_keywords \"1364-2005\"\nmodule m; endmodule\n`end_keywords\n",
    "module m; endmodule\n`begin_keywords \"1364-1995\"\n",
];

pub fn run_case(env: &Env, ctx: &mut Ctx, idx: u64) {
    let tables = KwTables::load(&format!("{}/corpus/keywords.txt", env.verif));
    let mut rng = Rng::derive(ctx.seed, 13, idx, 0);
    let words = all_words(&tables);
    let sweep_cases = (words.len() as u64 * 8 * 3 + SWEEP_BATCH - 1) / SWEEP_BATCH;
    if ctx.tier != Tier::Tiny && idx < sweep_cases {
        sweep(ctx, &tables, &words, idx);
        return;
    }
    if rng.chance(1, 4) {
        // the tree monitor on accepted trees of the shared workload
        let inp = workload::tree_input(env, &mut rng);
        if inp.gram != Gram::Sv {
            return;
        }
        if let Ok(Ok(t)) = parse(&inp.text) {
            let mut st = KwStats::default();
            ctx.count("trees_scanned", 1);
            let r = lib(|| mon_kw::check_tree(&t, &tables, &mut st));
            ctx.count("identifiers_checked", st.identifiers);
            ctx.count("macro_names_checked", st.macro_names);
            match r {
                Ok(Ok(())) => {}
                Ok(Err(m)) => ctx.violation("reserved-identifier-in-tree", "", &m, Obj::new().s("input", &inp.text).done()),
                Err(_) => ctx.inconclusive("lib_panic"),
            }
        }
        return;
    }
    if rng.chance(1, 8) {
        twin(env, ctx, &tables, &words, &mut rng);
        return;
    }
    let nmods = rng.range(1, 3);
    let p = gen_sv::program_v95(&mut rng, nmods);
    let mut lr = rng.fork();
    let base = render_regions(&p, &mut lr.clone(), None);
    ctx.count("region_programs", 1);
    let witness = |text: &str, d: &str| Obj::new().s("input", text).s("detail", d).done();
    let tree = match parse(&base.text) {
        Err(_) => {
            ctx.inconclusive("lib_panic");
            return;
        }
        Ok(Err(e)) => {
            // a program made of 1364-1995 constructs is valid under every keyword set
            hooks::set_capacity(None);
            let again = parse(&base.text);
            hooks::set_capacity(Some(hooks::DEFAULT_CAPACITY));
            let (sig, note) = crate::memo_cfg::attribute(env, if matches!(again, Ok(Ok(_))) { "K4" } else { "" });
            let m = format!("a Verilog-1995 program inside `begin_keywords regions is rejected: {:?}{}", e, note);
            ctx.violation("base-rejected", &sig, &m, witness(&base.text, &m));
            return;
        }
        Ok(Ok(t)) => t,
    };
    let mut st = KwStats::default();
    match lib(|| mon_kw::check_tree(&tree, &tables, &mut st)) {
        Ok(Ok(())) => {}
        Ok(Err(m)) => ctx.violation("reserved-identifier-in-tree", "", &m, witness(&base.text, &m)),
        Err(_) => ctx.inconclusive("lib_panic"),
    }
    ctx.count("identifiers_checked", st.identifiers);
    ctx.count("keyword_regions_seen", st.regions);
    for v in &base.versions {
        ctx.seen("versions_in_force", v.unwrap_or("default(1800-2017)"));
    }
    // mutation pair at one name position
    if p.name_pos.is_empty() {
        return;
    }
    let np = rng.pick(&p.name_pos).clone();
    let version = base.versions[np.desc].unwrap_or("1800-2017");
    let set = tables.set_of(version);
    let later: Vec<&String> = words.iter().filter(|w| !set.contains(*w)).collect();
    let reserved_dir = later.is_empty() || rng.chance(1, 2);
    let word: String = if reserved_dir {
        let mut v: Vec<&String> = set.iter().collect();
        v.sort();
        (*rng.pick(&v)).clone()
    } else {
        (*rng.pick(&later)).clone()
    };
    let m = render_regions(&p, &mut lr.clone(), Some((np.tok, &word)));
    ctx.count("mutation_pairs", 1);
    if rng.chance(1, 4) {
        // the thread has just finished a call that left a keywords region open
        let _ = parse(*rng.pick(EARLIER));
        ctx.count("mutation_pairs_after_an_open_region", 1);
    }
    ctx.seen("positions", np.what);
    let r = match parse(&m.text) {
        Err(_) => {
            ctx.inconclusive("lib_panic");
            return;
        }
        Ok(r) => r,
    };
    let memo_sig = |text: &str, want_ok: bool| -> String {
        hooks::set_capacity(None);
        let again = parse(text);
        hooks::set_capacity(Some(hooks::DEFAULT_CAPACITY));
        match again {
            Ok(r) if r.is_ok() == want_ok => crate::memo_cfg::attribute(env, "K4").0,
            _ => String::new(),
        }
    };
    if reserved_dir {
        ctx.count("reserved_word_mutants", 1);
        if r.is_ok() {
            let msg = format!("{:?} is reserved under {} but is accepted at a {} name position", word, version, np.what);
            let sig = memo_sig(&m.text, false);
            ctx.violation("reserved-word-accepted", &sig, &msg, witness(&m.text, &msg));
        } else {
            ctx.count("reserved_word_rejected", 1);
        }
    } else {
        ctx.count("later_word_mutants", 1);
        match r {
            Err(e) => {
                let msg = format!("{:?} is not reserved under {} (only in a later standard) but the source is rejected at a {} name position: {:?}", word, version, np.what, e);
                let mut sig = memo_sig(&m.text, true);
                if sig.is_empty() {
                    sig = format!("K5:{}:{}:{}", word, np.what, version);
                }
                ctx.violation("later-word-rejected", &sig, &msg, witness(&m.text, &msg));
            }
            Ok(t) => {
                // it must be a simple identifier with that text at that place
                let (s, _) = m.spans[np.tok];
                let mut found = false;
                for n in &t {
                    if let RefNode::SimpleIdentifier(id) = n {
                        if t.get_str(&id.nodes.0) == Some(word.as_str()) {
                            found = true;
                        }
                    }
                }
                let _ = s;
                if found {
                    ctx.count("later_word_accepted_as_identifier", 1);
                } else {
                    let msg = format!("{:?} accepted under {} but not as a simple identifier", word, version);
                    ctx.violation("later-word-not-identifier", "", &msg, witness(&m.text, &msg));
                }
            }
        }
    }
    ctx.nontrivial(hash_strs(&[&m.text]));
    if ctx.want_sample() {
        ctx.sample(Obj::new().s("mutant", &clip(&m.text, 400)).s("word", &word).s("version_in_force", version).s("position", np.what).b("reserved_in_force", reserved_dir).done());
    }
}

/// The same word at a name position on both sides of a keyword-set boundary, identifier on the first side and
/// reserved on the second, with nothing but keywords, punctuation and the directives in between (or one short
/// identifier): whatever was learnt about the word under the first set says nothing under the second.
fn twin(env: &Env, ctx: &mut Ctx, tables: &KwTables, words: &[String], rng: &mut Rng) {
    // (first set, second set; None = default 1800-2017) with a word reserved in the second only
    let (va, vb, word) = loop {
        let va = VERSIONS[rng.below(VERSIONS.len())].0;
        let vb: Option<&'static str> = if rng.chance(1, 2) { None } else { Some(VERSIONS[rng.below(VERSIONS.len())].0) };
        let sa = tables.set_of(va);
        let sb = tables.set_of(vb.unwrap_or("1800-2017"));
        let cand: Vec<&String> = words.iter().filter(|w| !sa.contains(*w) && sb.contains(*w)).collect();
        if !cand.is_empty() {
            break (va, vb, (*rng.pick(&cand)).clone());
        }
    };
    let item = |rng: &mut Rng, w: &str| -> String {
        match rng.below(5) {
            0 | 1 => format!("module {}; endmodule", w),
            2 => format!("module {}(); endmodule", w),
            3 => format!("module m; wire {}; endmodule", w),
            _ => format!("module m; reg {}; endmodule", w),
        }
    };
    let first_item = item(rng, &word);
    let second_item = item(rng, &word);
    let nl = |rng: &mut Rng| rng.pick(&["\n", " ", "\n\n", "\r\n"]).to_string();
    let first_alone = format!("`begin_keywords \"{}\"{}{}{}`end_keywords\n", va, nl(rng), first_item, nl(rng));
    let text = match (rng.below(3), vb) {
        // nested: the outer set comes back when the inner region ends
        (0, Some(vb)) => format!("`begin_keywords \"{}\"{}`begin_keywords \"{}\"{}{}{}`end_keywords{}{}{}`end_keywords\n", vb, nl(rng), va, nl(rng), first_item, nl(rng), nl(rng), second_item, nl(rng)),
        // two regions one after the other
        (_, Some(vb)) => format!("`begin_keywords \"{}\"{}{}{}`end_keywords{}`begin_keywords \"{}\"{}{}{}`end_keywords\n", va, nl(rng), first_item, nl(rng), nl(rng), vb, nl(rng), second_item, nl(rng)),
        // back to the default set
        (_, None) => format!("`begin_keywords \"{}\"{}{}{}`end_keywords{}{}\n", va, nl(rng), first_item, nl(rng), nl(rng), second_item),
    };
    ctx.count("twin_programs", 1);
    match parse(&first_alone) {
        Ok(Ok(_)) => {}
        Ok(Err(_)) => {
            // the word is not usable there even alone (K5 positions): nothing to learn from the pair
            ctx.count("twin_first_side_rejected", 1);
            return;
        }
        Err(_) => {
            ctx.inconclusive("lib_panic");
            return;
        }
    }
    match parse(&text) {
        Err(_) => ctx.inconclusive("lib_panic"),
        Ok(Err(_)) => ctx.count("twin_second_side_rejected", 1),
        Ok(Ok(_)) => {
            let msg = format!(
                "{:?} is an identifier under {} and reserved under {}; used at a name position on both sides of the boundary the source is accepted",
                word,
                va,
                vb.unwrap_or("the default set (1800-2017)")
            );
            hooks::set_capacity(None);
            let again = parse(&text);
            hooks::set_capacity(Some(hooks::DEFAULT_CAPACITY));
            let sig = match again {
                Ok(Err(_)) => crate::memo_cfg::attribute(env, "K4").0,
                _ => String::new(),
            };
            ctx.violation("reserved-word-accepted-after-boundary", &sig, &msg, Obj::new().s("input", &text).s("detail", &msg).done());
        }
    }
    ctx.nontrivial(hash_strs(&[&text]));
}

/// all words x all eight specifiers x three name positions (enumerated completely in every run)
fn sweep(ctx: &mut Ctx, tables: &KwTables, words: &[String], idx: u64) {
    let total = words.len() as u64 * 8 * 3;
    for k in idx * SWEEP_BATCH..((idx + 1) * SWEEP_BATCH).min(total) {
        let w = &words[(k / 24) as usize];
        let (version, _) = VERSIONS[((k / 3) % 8) as usize];
        let pos = k % 3;
        let body = match pos {
            0 => format!("module m; wire {}; endmodule", w),
            1 => format!("module {}; endmodule", w),
            _ => format!("module m; sub {} (); endmodule", w),
        };
        let what = ["net", "module", "inst"][pos as usize];
        let text = format!("`begin_keywords \"{}\"\n{}\n`end_keywords\n", version, body);
        let reserved = tables.set_of(version).contains(w);
        ctx.count("sweep_cases", 1);
        match parse(&text) {
            Err(_) => ctx.inconclusive("lib_panic"),
            Ok(r) => {
                if reserved && r.is_ok() {
                    let m = format!("{:?} is reserved under {} but accepted as {} name", w, version, what);
                    ctx.violation("reserved-word-accepted", "", &m, Obj::new().s("input", &text).done());
                } else if !reserved && r.is_err() {
                    let m = format!("{:?} is not reserved under {} but rejected as {} name", w, version, what);
                    ctx.violation("later-word-rejected", &format!("K5:{}:{}:{}", w, what, version), &m, Obj::new().s("input", &text).done());
                } else {
                    ctx.count("sweep_agree", 1);
                    ctx.nontrivial(hash_str(&text));
                }
            }
        }
    }
}

/// hand-run enumeration helper (`svverif k5enum`): every (word, position, version) with the word not
/// reserved under the version whose minimal template is rejected.  Used once to fill known_findings.json.
pub fn k5enum(verif: &str) {
    let tables = KwTables::load(&format!("{}/corpus/keywords.txt", verif));
    let words = all_words(&tables);
    let templates: &[(&str, &[&str])] = &[
        ("module", &["module W; endmodule", "module W (a); input a; endmodule"]),
        ("net", &["module m; wire W; endmodule", "module m; wire [3:0] W; endmodule", "module m; tri W; endmodule", "module m; supply0 W; endmodule", "module m; wand [7:0] W; endmodule"]),
        ("var", &["module m; reg W; endmodule", "module m; integer W; endmodule", "module m; reg [3:0] W; endmodule"]),
        ("port", &["module m(a); input W; endmodule", "module m(a); output W; endmodule", "module m(a); inout W; endmodule", "module m(a); input [3:0] W; endmodule", "module m(a); output [7:0] W; endmodule", "module m(a); inout [3:0] W; endmodule"]),
        ("param", &["module m; parameter W = 4; endmodule"]),
        ("inst", &["module m; sub W (); endmodule", "module m; sub W (.a(1)); endmodule"]),
        ("func", &["module m; function [3:0] W; input a; begin f = a; end endfunction endmodule"]),
        ("task", &["module m; task W; output a; begin a = 1; end endtask endmodule"]),
        ("tfport", &["module m; function [3:0] f; input W; begin f = 1; end endfunction endmodule", "module m; task t; output W; begin t = 1; end endtask endmodule"]),
        ("label", &["module m; initial begin : W $display(\"v\"); end endmodule"]),
    ];
    for (what, ts) in templates {
        for (version, _) in VERSIONS {
            for w in &words {
                if tables.set_of(version).contains(w) {
                    continue;
                }
                for t in ts.iter() {
                    let text = format!("`begin_keywords \"{}\"\n{}\n`end_keywords\n", version, t.replace("W", w));
                    if let Ok(Err(_)) = parse(&text) {
                        println!("K5:{}:{}:{}", w, what, version);
                        break;
                    }
                }
            }
        }
    }
}
