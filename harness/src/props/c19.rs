//! C19 — concurrent calls on different threads do not interfere.

use crate::ctx::{Ctx, Tier};
use crate::mon_hist::*;
use crate::util::*;
use crate::Env;
use std::sync::atomic::{AtomicU64, AtomicUsize, Ordering};
use std::sync::{Arc, Barrier};
use sv_parser_parser::verif_hooks as hooks;

pub fn cases(tier: Tier) -> u64 {
    match tier {
        Tier::Quick => 256,
        Tier::Thorough => 4000,
        Tier::Tiny => 2,
    }
}

static NOISE: AtomicU64 = AtomicU64::new(0x1234_5678_9abc_def1);
static YIELDS: AtomicUsize = AtomicUsize::new(0);

fn yield_hook(_k: hooks::EventKind) {
    // cheap shared xorshift; races on it only add noise
    let mut x = NOISE.load(Ordering::Relaxed);
    x ^= x << 13;
    x ^= x >> 7;
    x ^= x << 17;
    NOISE.store(x, Ordering::Relaxed);
    match x & 0x3f {
        0..=3 => {
            YIELDS.fetch_add(1, Ordering::Relaxed);
            std::thread::yield_now();
        }
        4 => {
            for _ in 0..(x >> 58) {
                std::hint::spin_loop();
            }
        }
        _ => {}
    }
}

const SENSITIVE: &[(&str, Entry)] = &[
    ("`begin_keywords \"1364-2001\"\nmodule m; wire logic; endmodule\n", Entry::ParseSvStr),
    ("module m; wire logic; endmodule", Entry::ParseSvStr),
    ("`begin_keywords \"1364-1995\"\nmodule m; wire signed, automatic_; endmodule\n", Entry::ParseSvStr),
    ("module m; wire w; `celldefine // c\n/* d */ wire v; endmodule", Entry::ParseSvStr),
    ("`timescale 1ns/1ps // c\n`define X(a) a /* c */ + 1\nmodule m; assign w = `X(2); endmodule // t\n", Entry::PpStr),
    ("`define R `R\n`R", Entry::PpStr),
    ("`define A0 x\n`define A1 `A0 `A0\n`define A2 `A1 `A1\n`define A3 `A2 `A2\n`define A4 `A3 `A3\n`A4\n", Entry::PpStr),
    ("module m; assign a = (A == 1) ? 1 - 1 : (A == 1) ? 1 - 1 : 1 - 1; endmodule", Entry::RawSv),
    ("library l a.v; include b;", Entry::ParseLibStr),
    ("module m; /* c */ initial begin end // x\n endmodule", Entry::PpStrStrip),
];

pub fn run_case(env: &Env, ctx: &mut Ctx, idx: u64) {
    let mut rng = Rng::derive(ctx.seed, 19, idx, 0);
    let nthreads = *rng.pick(if ctx.tier == Tier::Tiny { &[2usize][..] } else { &[2usize, 4, 4, 16, 16, 64][..] });
    let per = if ctx.tier == Tier::Tiny { 2 } else { rng.range(3, 12) };
    // call lists: distinct inputs and the same input on several threads
    let shared: Vec<Call> = (0..3)
        .map(|_| {
            let (s, e) = *rng.pick(SENSITIVE);
            Call { entry: e, src: s.to_string(), path: None, include_paths: vec![] }
        })
        .collect();
    // the same relative header name resolves to different files under different include paths
    let idir = ctx.tmpdir.join(format!("c19-{}", idx));
    let inc_dirs: Vec<std::path::PathBuf> = (0..3).map(|k| idir.join(format!("inc{}", k))).collect();
    for (k, d) in inc_dirs.iter().enumerate() {
        let _ = std::fs::create_dir_all(d);
        let _ = std::fs::write(d.join("cfg.svh"), format!("`define WIDTH {}\n`define FROM_{} 1\n", 8 << k, k));
    }
    let mut lists: Vec<Vec<Call>> = Vec::new();
    for ti in 0..nthreads {
        let mut l = Vec::new();
        for _ in 0..per {
            let c = match rng.below(12) {
                10 | 11 => {
                    let d = inc_dirs[(ti + rng.below(2)) % inc_dirs.len()].clone();
                    Call {
                        entry: if rng.chance(1, 2) { Entry::PpStr } else { Entry::ParseSvStr },
                        src: "`include \"cfg.svh\"\nmodule m; wire [`WIDTH-1:0] w;\n`ifdef FROM_1\nwire one;\n`endif\nendmodule\n".to_string(),
                        path: None,
                        include_paths: vec![d],
                    }
                }
                0..=2 => shared[rng.below(shared.len())].clone(),
                3..=5 => {
                    let (s, e) = *rng.pick(SENSITIVE);
                    Call { entry: e, src: s.to_string(), path: None, include_paths: vec![] }
                }
                6 => Call { entry: *rng.pick(ENTRIES), src: rng.pick(POLLUTERS).to_string(), path: None, include_paths: vec![] },
                _ if ctx.tier == Tier::Tiny => {
                    let (s, e) = *rng.pick(SENSITIVE);
                    Call { entry: e, src: s.to_string(), path: None, include_paths: vec![] }
                }
                _ => Call { entry: *rng.pick(ENTRIES), src: env.corpus.pick_program(&mut rng).to_string(), path: None, include_paths: vec![] },
            };
            l.push(c);
        }
        lists.push(l);
    }
    // half of the rounds: every thread starts with the same call on a text that this process has never seen
    // (a long macro body with the round's number in it): first use of anything keyed by content happens under contention
    if ctx.tier != Tier::Tiny && rng.chance(1, 2) {
        let uid = format!("{}_{}", ctx.seed, idx);
        // several long bodies in one text: several first uses per call
        let mut src = String::new();
        for j in 0..6 {
            let body: String = (0..24).map(|k| format!("(a{}_{}_{} + {}) ^ ", k, j, uid, k)).collect::<String>() + "1'b0";
            src.push_str(&format!("`define LONG{j}_{u}(p) ({b}) /* {u} */ + p\n", j = j, u = uid, b = body));
        }
        src.push_str(&format!("module m{u};\n", u = uid));
        for j in 0..6 {
            src.push_str(&format!("assign x{j} = `LONG{j}_{u}(y{j});\n", j = j, u = uid));
        }
        src.push_str("endmodule\n");
        let entry = if rng.chance(1, 2) { Entry::PpStr } else { Entry::ParseSvStr };
        for l in lists.iter_mut() {
            l.insert(0, Call { entry, src: src.clone(), path: None, include_paths: vec![] });
        }
        ctx.count("rounds_with_first_use_under_contention", 1);
    }
    // reference results: each call alone on a fresh thread, sequentially, no noise; in half of the rounds they are
    // taken after the concurrent run, so that the concurrent run is the first to see the round's inputs
    hooks::set_yield_hook(None);
    let refs_first = rng.chance(1, 2);
    let mut refs: Vec<Vec<Res>> = if refs_first { lists.iter().map(|l| l.iter().map(exec_fresh).collect()).collect() } else { Vec::new() };

    hooks::set_yield_hook(Some(yield_hook));
    YIELDS.store(0, Ordering::Relaxed);
    let barrier = Arc::new(Barrier::new(nthreads));
    let lists = Arc::new(lists);
    let mut handles = Vec::new();
    for t in 0..nthreads {
        let b = barrier.clone();
        let ls = lists.clone();
        handles.push(
            std::thread::Builder::new()
                .stack_size(1 << 28)
                .spawn(move || {
                    let mut rb = RawBuf::new();
                    hooks::set_event_log(true);
                    b.wait();
                    let mut out = Vec::new();
                    for c in &ls[t] {
                        let r = exec(c, &mut rb);
                        let log = hooks::take_event_log();
                        let iv = if log.is_empty() { None } else { Some((log[0].seq, log[log.len() - 1].seq, log.len())) };
                        // keep a thinned copy of the sequence numbers for the interleaving measure
                        let seqs: Vec<usize> = log.iter().step_by(8).map(|e| e.seq).collect();
                        out.push((r, iv, seqs));
                    }
                    out
                })
                .expect("spawn"),
        );
    }
    let results: Vec<Vec<(Res, Option<(usize, usize, usize)>, Vec<usize>)>> =
        handles.into_iter().map(|h| h.join().unwrap_or_default()).collect();
    hooks::set_yield_hook(None);
    if !refs_first {
        refs = lists.iter().map(|l| l.iter().map(exec_fresh).collect()).collect();
        ctx.count("rounds_with_references_taken_afterwards", 1);
    }

    ctx.count("rounds", 1);
    ctx.count(&format!("rounds_with_{}_threads", nthreads), 1);
    ctx.count("injected_yields", YIELDS.load(Ordering::Relaxed) as u64);
    // observed interleaving
    let mut ivs: Vec<(usize, usize, usize)> = Vec::new(); // (first, last, thread)
    let mut merged: Vec<(usize, usize)> = Vec::new(); // (seq, thread)
    for (t, rs) in results.iter().enumerate() {
        for (_, iv, seqs) in rs {
            if let Some((a, b, n)) = iv {
                ivs.push((*a, *b, t));
                ctx.count("hook_events", *n as u64);
            }
            for s in seqs {
                merged.push((*s, t));
            }
        }
    }
    ivs.sort();
    let mut overlaps = 0u64;
    for i in 0..ivs.len() {
        for j in i + 1..ivs.len() {
            if ivs[j].0 > ivs[i].1 {
                break;
            }
            if ivs[j].2 != ivs[i].2 {
                overlaps += 1;
            }
        }
    }
    merged.sort();
    let switches = merged.windows(2).filter(|w| w[0].1 != w[1].1).count() as u64;
    ctx.count("overlapping_call_pairs", overlaps);
    ctx.count("context_switches_between_hook_events", switches);
    let mut f = Fnv::new();
    for (_, t) in merged.iter().take(4096) {
        f.u64(*t as u64);
    }
    ctx.nontrivial(f.0);
    // verdict
    let mut calls = 0u64;
    for (t, rs) in results.iter().enumerate() {
        if rs.len() != lists[t].len() {
            ctx.violation("thread-died", "", "a worker thread died during concurrent calls", Obj::new().n("thread", t as u64).done());
            continue;
        }
        for (i, (r, _, _)) in rs.iter().enumerate() {
            calls += 1;
            if *r != refs[t][i] {
                let m = format!(
                    "call {:?} on thread {} of {} returned {} while other threads were inside the library, but {} when run alone",
                    lists[t][i].entry,
                    t,
                    nthreads,
                    r.brief(),
                    refs[t][i].brief()
                );
                let w = Obj::new().raw("call", &lists[t][i].json()).s("src_full", &lists[t][i].src).n("threads", nthreads as u64).s("concurrent", &r.brief()).s("alone", &refs[t][i].brief()).done();
                ctx.violation("interference", "", &m, w);
            }
        }
    }
    ctx.count("concurrent_calls", calls);
    let _ = std::fs::remove_dir_all(&idir);
    if ctx.want_sample() {
        ctx.sample(
            Obj::new()
                .n("threads", nthreads as u64)
                .n("calls_per_thread", per as u64)
                .n("overlapping_call_pairs", overlaps)
                .n("context_switches", switches)
                .raw("thread0_calls", &json_arr(lists[0].iter().map(|c| Obj::new().s("entry", &format!("{:?}", c.entry)).s("src", &clip(&c.src, 60)).done())))
                .done(),
        );
    }
}
