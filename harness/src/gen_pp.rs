//! G-PP: preprocessor-program generator with reference semantics (DESIGN 3.3).
//!
//! An abstract program is drawn first; `render` turns it into source files,
//! `eval` computes — on the abstract program, not on text — the expected token
//! sequence, the expected final define table and the expected error.

use crate::lexer;
use crate::util::Rng;
use std::collections::BTreeMap;

// ----------------------------------------------------------------------------
// abstract syntax

#[derive(Clone, Debug)]
pub enum Piece {
    Tok(String),
    Formal(usize),
    /// a``b``c
    Paste(Vec<Piece>),
    /// `" ... `"  (pieces separated by one blank)
    Strfy(Vec<Piece>),
    /// ordinary string literal (may mention a formal's name; must stay untouched)
    Str(String),
    /// nested usage; actuals are piece lists (may reference the outer formals)
    Use(String, Option<Vec<Option<Vec<Piece>>>>),
    /// line continuation between pieces
    Cont,
    /// block comment inside a body: part of the macro text, white space as far as tokens go
    Cmt(String),
    /// `define <name> <body> as the last piece of a body (a define-generating macro); name is a Tok or a Formal
    DefStmt(Box<Piece>, String),
    /// `undef <name> as the last piece of a body
    UndefStmt(Box<Piece>),
}

#[derive(Clone, Debug)]
pub struct MacroDef {
    pub name: String,
    /// None = no parenthesis at all; Some(vec) = formals (possibly empty is not generated)
    pub formals: Option<Vec<(String, Option<String>)>>,
    /// None = defined without body
    pub body: Option<Vec<Piece>>,
}

#[derive(Clone, Debug)]
pub enum Item {
    Tok(String),
    /// string literal, always followed by `;` (K1 steering) unless `k1_shape`
    Str(String),
    Comment(String),
    Define(MacroDef),
    Undef(String),
    UndefAll,
    Cond { ifndef: bool, chain: Vec<(String, Vec<Item>)>, els: Option<Vec<Item>> },
    /// usage with actual argument texts (None = omitted argument); `args: None` = no parenthesis
    Usage { name: String, args: Option<Vec<Option<String>>> },
    Include { name: String, style: u8 },
    /// directive kept verbatim in the output
    Kept(String),
    Line,
    File,
}

#[derive(Clone, Debug)]
pub struct FileSrc {
    pub name: String,
    pub items: Vec<Item>,
}

#[derive(Clone, Debug)]
pub enum PreDef {
    /// key present, value None
    Bare,
    /// Some(Define) without body
    NoBody,
    /// Some(Define) with body text
    Body(String),
}

#[derive(Clone, Debug)]
pub struct Prog {
    pub files: Vec<FileSrc>,
    pub predefs: Vec<(String, PreDef)>,
}

// ----------------------------------------------------------------------------
// rendering

#[derive(Clone, Debug, Default)]
pub struct Rendered {
    pub crlf: bool,
    /// item address -> byte offset of the item's first byte in its file
    pub pos: std::collections::HashMap<usize, usize>,
    pub files: Vec<(String, String)>,
    /// (file index, item path hash) -> line number of each `__LINE__ in render order per file
    pub line_numbers: Vec<Vec<u32>>,
}

pub struct Renderer<'r> {
    r: &'r mut Rng,
    /// one directive per line (true) or inline where the grammar allows
    pub per_line: bool,
    pub comments: bool,
    pub comment_seps: bool,
    pub pos: std::collections::HashMap<usize, usize>,
}

fn render_piece(p: &Piece, formals: &[(String, Option<String>)]) -> String {
    match p {
        Piece::Tok(t) => t.clone(),
        Piece::Formal(i) => formals[*i].0.clone(),
        Piece::Paste(v) => v.iter().map(|x| render_piece(x, formals)).collect::<Vec<_>>().join("``"),
        Piece::Strfy(v) => format!("`\"{}`\"", v.iter().map(|x| render_piece(x, formals)).collect::<Vec<_>>().join(" ")),
        Piece::Str(s) => format!("\"{}\"", s),
        Piece::Cmt(c) => c.clone(),
        Piece::Use(n, args) => {
            let mut s = format!("`{}", n);
            if let Some(a) = args {
                s.push('(');
                s.push_str(
                    &a.iter()
                        .map(|x| match x {
                            Some(ps) => ps.iter().map(|q| render_piece(q, formals)).collect::<Vec<_>>().join(" "),
                            None => String::new(),
                        })
                        .collect::<Vec<_>>()
                        .join(", "),
                );
                s.push(')');
            }
            s
        }
        Piece::Cont => "\\\n ".to_string(),
        Piece::DefStmt(n, b) => format!("`define {} {}", render_piece(n, formals), b),
        Piece::UndefStmt(n) => format!("`undef {}", render_piece(n, formals)),
    }
}

pub fn render_define(m: &MacroDef) -> String {
    let mut s = format!("`define {}", m.name);
    let empty = vec![];
    let formals = m.formals.as_ref().unwrap_or(&empty);
    if m.formals.is_some() {
        s.push('(');
        s.push_str(
            &formals
                .iter()
                .map(|(f, d)| match d {
                    Some(d) => format!("{} = {}", f, d),
                    None => f.clone(),
                })
                .collect::<Vec<_>>()
                .join(", "),
        );
        s.push(')');
    }
    if let Some(b) = &m.body {
        s.push(' ');
        let mut first = true;
        for p in b {
            // `;` directly follows a string literal (K1 steering: no trivia after literals)
            let glue = matches!(p, Piece::Tok(t) if t == ";");
            if !first && !glue {
                s.push(' ');
            }
            first = false;
            s.push_str(&render_piece(p, formals));
        }
    }
    s.push('\n');
    s
}

impl<'r> Renderer<'r> {
    pub fn new(r: &'r mut Rng) -> Renderer<'r> {
        let per_line = r.chance(1, 2);
        Renderer { r, per_line, comments: true, comment_seps: false, pos: Default::default() }
    }
    fn sep(&mut self) -> &'static str {
        if self.comment_seps && self.r.chance(1, 3) {
            // a comment as the only separator
            return *self.r.pick(&["/**/", "/* c */", "// c\n", "/* x */ ", " /* y */", "//\n", "/* `endif */", "// c \n", " // d\t \n"]);
        }
        if self.per_line {
            *self.r.pick(&["\n", "\n", "\n\n", " \n", "\n  "])
        } else {
            *self.r.pick(&["\n", " ", "  ", "\t", " \n", "\n\n"])
        }
    }
    fn nl(&mut self) -> &'static str {
        *self.r.pick(&["\n", "\n\n", "\n  "])
    }

    pub fn items(&mut self, items: &[Item], out: &mut String, lines: &mut Vec<u32>) {
        for (ix, it) in items.iter().enumerate() {
            let key = it as *const Item as usize;
            match it {
                Item::Define(_) | Item::Undef(_) | Item::UndefAll | Item::Kept(_) | Item::Cond { .. } => self.bol(out),
                _ => {}
            }
            self.pos.insert(key, out.len());
            match it {
                Item::Tok(t) => {
                    out.push_str(t);
                    // a directive may follow a token directly (the backtick delimits)
                    let next_is_directive = matches!(items.get(ix + 1), Some(Item::Cond { .. }) | Some(Item::Undef(_)) | Some(Item::UndefAll) | Some(Item::Usage { .. }));
                    if !(self.comment_seps && !self.per_line && next_is_directive && self.r.chance(1, 3)) {
                        out.push_str(self.sep());
                    }
                }
                Item::Str(s) => {
                    out.push('"');
                    out.push_str(s);
                    out.push_str("\";");
                    out.push_str(self.sep());
                }
                Item::Comment(c) => {
                    out.push_str(c);
                    if c.starts_with("//") {
                        // white space between the comment text and its newline now and then
                        out.push_str(*self.r.pick(&["\n", "\n", "\n", " \n", "\t\n", " \t \n"]));
                    } else {
                        out.push_str(self.sep());
                    }
                }
                Item::Define(m) => {
                    self.bol(out);
                    out.push_str(&render_define(m));
                }
                Item::Undef(n) => {
                    self.bol(out);
                    out.push_str(&format!("`undef {}", n));
                    out.push_str(self.sep());
                }
                Item::UndefAll => {
                    self.bol(out);
                    out.push_str("`undefineall");
                    out.push_str(self.sep());
                }
                Item::Cond { ifndef, chain, els } => {
                    self.bol(out);
                    out.push_str(if *ifndef { "`ifndef " } else { "`ifdef " });
                    out.push_str(&chain[0].0);
                    out.push_str(self.sep());
                    self.items(&chain[0].1, out, lines);
                    for (n, b) in &chain[1..] {
                        self.bol(out);
                        out.push_str("`elsif ");
                        out.push_str(n);
                        out.push_str(self.sep());
                        self.items(b, out, lines);
                    }
                    if let Some(e) = els {
                        self.bol(out);
                        out.push_str("`else");
                        out.push_str(self.sep());
                        self.items(e, out, lines);
                    }
                    self.bol(out);
                    out.push_str("`endif");
                    out.push_str(self.sep());
                }
                Item::Usage { name, args } => {
                    out.push('`');
                    out.push_str(name);
                    if let Some(a) = args {
                        let pad = *self.r.pick(&["", "", " "]);
                        out.push('(');
                        out.push_str(pad);
                        out.push_str(
                            &a.iter().map(|x| x.clone().unwrap_or_default()).collect::<Vec<_>>().join(&format!("{},{}", pad, if pad.is_empty() { " " } else { pad })),
                        );
                        out.push_str(pad);
                        out.push(')');
                    }
                    out.push_str(self.sep());
                }
                Item::Include { name, style } => {
                    // alone on its line
                    if !out.is_empty() && !out.ends_with('\n') {
                        out.push('\n');
                    }
                    match style {
                        0 => out.push_str(&format!("`include \"{}\"", name)),
                        1 => out.push_str(&format!("`include <{}>", name)),
                        _ => out.push_str(&format!("`include `{}", name)), // name = macro name
                    }
                    out.push_str(*self.r.pick(&["\n", " \n", " // inc\n", "\n\n"]));
                }
                Item::Kept(d) => {
                    self.bol(out);
                    out.push_str(d);
                    out.push_str(self.nl());
                }
                Item::Line => {
                    let ln = 1 + out.bytes().filter(|b| *b == b'\n').count() as u32;
                    lines.push(ln);
                    out.push_str("`__LINE__");
                    out.push_str(self.sep());
                }
                Item::File => {
                    out.push_str("`__FILE__");
                    out.push_str(self.sep());
                }
            }
        }
    }

    fn bol(&mut self, out: &mut String) {
        if self.per_line && !out.is_empty() && !out.ends_with('\n') {
            out.push('\n');
        }
    }
}

pub fn render(p: &Prog, r: &mut Rng) -> Rendered {
    render_opt(p, r, false)
}

pub fn render_opt(p: &Prog, r: &mut Rng, comment_seps: bool) -> Rendered {
    let crlf = r.chance(1, 8);
    let mut rd = Rendered::default();
    rd.crlf = crlf;
    for f in &p.files {
        let mut s = String::new();
        let mut lines = Vec::new();
        let mut rr = Renderer::new(r);
        rr.comment_seps = comment_seps;
        rr.items(&f.items, &mut s, &mut lines);
        let mut pos = std::mem::take(&mut rr.pos);
        if f.items.is_empty() {
            // a zero-byte file
        } else if !s.ends_with('\n') {
            s.push('\n');
        }
        if crlf {
            // CR LF line endings throughout (item offsets shift by the number of line breaks before them)
            let nl: Vec<usize> = s.bytes().enumerate().filter(|(_, b)| *b == b'\n').map(|(i, _)| i).collect();
            for v in pos.values_mut() {
                *v += nl.partition_point(|x| *x < *v);
            }
            s = s.replace('\n', "\r\n");
        }
        rd.pos.extend(pos);
        if false {
            s.push('\n');
        }
        rd.files.push((f.name.clone(), s));
        rd.line_numbers.push(lines);
    }
    rd
}

// ----------------------------------------------------------------------------
// reference semantics

#[derive(Clone, Debug, PartialEq, Eq)]
pub enum ErrKind {
    DefineNotFound(String),
    DefineArgNotFound(String),
    DefineNoArgs(String),
    /// File{path as written}
    File(String),
    Recursion,
}

/// expected error: `wraps` Include wrappers around `kind`
#[derive(Clone, Debug, PartialEq, Eq)]
pub struct ErrExp {
    pub wraps: usize,
    pub kind: ErrKind,
}

fn err(kind: ErrKind) -> ErrExp {
    ErrExp { wraps: 0, kind }
}

#[derive(Clone, Debug, Default)]
pub struct Quirks {
    /// K2: `elsif X is judged "predefined" by looking at the chain head
    pub k2: bool,
    /// D12: `$` separates identifiers during argument substitution
    pub d12: bool,
}

#[derive(Clone, Debug)]
pub enum TableEntry {
    Bare,
    /// definition, file index and offset of its body text (the byte after the macro name / formal list)
    Def(MacroDef, usize, usize),
    /// caller-supplied body text
    Ext(String),
    ExtNoBody,
}

/// where an expected output token comes from
#[derive(Clone, Debug, PartialEq, Eq)]
pub enum Prov {
    /// copied from `file` (index into Prog.files) at byte offset `off`
    Src { file: usize, off: usize },
    /// produced by expanding a usage in active text of macro `name`, whose definition stands in `def_file`
    /// with its body text starting at `body_begin`; `usage` numbers the usages
    Exp { name: String, def_file: usize, body_begin: usize, usage: usize },
    /// synthesised (`__LINE__, `__FILE__, caller-supplied or predefined macro text); Some(usage) when the token is
    /// part of the expansion of a usage (white space between two tokens of one such segment is synthesised too)
    Synth(Option<usize>),
}

#[derive(Clone, Debug, Default)]
pub struct Expect {
    pub prov: Vec<Prov>,
    pub tokens: Vec<String>,
    pub table: BTreeMap<String, TableEntry>,
    pub error: Option<ErrExp>,
    /// payload tokens in live text, in order
    pub live_payload: Vec<String>,
    pub dead_payload: Vec<String>,
    /// SV_COV constants were wiped by `undefineall
    pub cov_cleared: bool,
}

pub struct Eval<'a> {
    pub prog: &'a Prog,
    pub rendered: &'a Rendered,
    pub q: Quirks,
    pub table: BTreeMap<String, TableEntry>,
    pub out: Vec<String>,
    pub prov: Vec<Prov>,
    usage_counter: usize,
    pub live_payload: Vec<String>,
    pub dead_payload: Vec<String>,
    pub cov_cleared: bool,
    line_cursor: Vec<usize>,
    /// path prefix under which files are looked up (for `__FILE__ rendering)
    pub file_path: Box<dyn Fn(&str) -> String + 'a>,
}

fn is_pre(n: &str) -> bool {
    n == "__LINE__" || n == "__FILE__"
}

fn is_cov(n: &str) -> bool {
    n.starts_with("SV_COV_")
}

fn lex_into(out: &mut Vec<String>, s: &str) {
    for t in lexer::tokens(s) {
        out.push(t.to_string());
    }
}

fn payload_of(items: &[Item], out: &mut Vec<String>) {
    for it in items {
        match it {
            Item::Tok(t) => out.push(t.clone()),
            Item::Cond { chain, els, .. } => {
                for (_, b) in chain {
                    payload_of(b, out);
                }
                if let Some(e) = els {
                    payload_of(e, out);
                }
            }
            Item::Define(m) => {
                // tokens of a dead definition's body must not surface either
                if let Some(b) = &m.body {
                    for p in b {
                        if let Piece::Tok(t) = p {
                            if t.len() > 1 && !t.contains('$') {
                                out.push(t.clone());
                            }
                        }
                    }
                }
            }
            _ => {}
        }
    }
}

impl<'a> Eval<'a> {
    pub fn new(prog: &'a Prog, rendered: &'a Rendered, q: Quirks, file_path: Box<dyn Fn(&str) -> String + 'a>) -> Eval<'a> {
        let mut table = BTreeMap::new();
        for (k, v) in &prog.predefs {
            table.insert(
                k.clone(),
                match v {
                    PreDef::Bare => TableEntry::Bare,
                    PreDef::NoBody => TableEntry::ExtNoBody,
                    PreDef::Body(b) => TableEntry::Ext(b.clone()),
                },
            );
        }
        Eval {
            prog,
            rendered,
            q,
            table,
            out: Vec::new(),
            prov: Vec::new(),
            usage_counter: 0,
            live_payload: Vec::new(),
            dead_payload: Vec::new(),
            cov_cleared: false,
            line_cursor: vec![0; prog.files.len()],
            file_path,
        }
    }

    fn defined(&self, n: &str) -> bool {
        self.table.contains_key(n) || is_pre(n) || (is_cov(n) && !self.cov_cleared)
    }

    pub fn run(mut self, file: usize) -> Expect {
        let err = self.file(file, 0).err();
        Expect {
            prov: self.prov,
            tokens: self.out,
            table: self.table,
            error: err,
            live_payload: self.live_payload,
            dead_payload: self.dead_payload,
            cov_cleared: self.cov_cleared,
        }
    }

    fn file(&mut self, fi: usize, depth: usize) -> Result<(), ErrExp> {
        if depth > 64 {
            return Err(err(ErrKind::Recursion));
        }
        let prog: &'a Prog = self.prog;
        self.items(&prog.files[fi].items, fi, depth)
    }

    /// tokens of a piece of source text copied verbatim from `fi` at `off`
    fn emit_src(&mut self, text: &str, fi: usize, off: usize) {
        // offsets inside a multi-line item (a `define with continuation lines) follow the file's line endings
        let conv;
        let text = if self.rendered.crlf && text.contains('\n') {
            conv = text.replace('\n', "\r\n");
            conv.as_str()
        } else {
            text
        };
        let (toks, _) = lexer::lex(text);
        for t in toks {
            if lexer::is_trivia(t.k) {
                continue;
            }
            self.out.push(text[t.s..t.e].to_string());
            self.prov.push(Prov::Src { file: fi, off: off + t.s });
        }
    }

    fn items(&mut self, items: &'a [Item], fi: usize, depth: usize) -> Result<(), ErrExp> {
        for it in items {
            let at = self.rendered.pos.get(&(it as *const Item as usize)).copied().unwrap_or(usize::MAX / 4);
            match it {
                Item::Tok(t) => {
                    self.emit_src(t, fi, at);
                    self.live_payload.push(t.clone());
                }
                Item::Str(s) => self.emit_src(&format!("\"{}\";", s), fi, at),
                Item::Comment(_) => {}
                Item::Define(m) => {
                    let d = render_define(m);
                    self.emit_src(&d, fi, at);
                    if !is_pre(&m.name) {
                        self.table.insert(m.name.clone(), TableEntry::Def(m.clone(), fi, at + define_head_len(m)));
                    }
                }
                Item::Undef(n) => {
                    self.emit_src(&format!("`undef {}", n), fi, at);
                    self.table.remove(n);
                }
                Item::UndefAll => {
                    self.emit_src("`undefineall", fi, at);
                    self.table.clear();
                    self.cov_cleared = true;
                }
                Item::Kept(d) => self.emit_src(d, fi, at),
                Item::Line => {
                    let k = self.line_cursor[fi];
                    self.line_cursor[fi] += 1;
                    let ln = self.rendered.line_numbers[fi].get(k).copied().unwrap_or(0);
                    self.out.push(format!("{}", ln));
                    self.prov.push(Prov::Synth(None));
                }
                Item::File => {
                    let p = (self.file_path)(&self.prog.files[fi].name);
                    self.out.push(format!("\"{}\"", p));
                    self.prov.push(Prov::Synth(None));
                }
                Item::Cond { ifndef, chain, els } => {
                    let head = &chain[0].0;
                    let mut taken: Option<&Vec<Item>> = None;
                    let mut hit = if *ifndef { !self.defined(head) } else { self.defined(head) };
                    if hit {
                        taken = Some(&chain[0].1);
                    } else {
                        for (n, b) in &chain[1..] {
                            let c = if self.q.k2 { self.table.contains_key(n) || (is_cov(n) && !self.cov_cleared) || is_pre(head) } else { self.defined(n) };
                            if c {
                                taken = Some(b);
                                hit = true;
                                break;
                            }
                        }
                        if !hit {
                            if let Some(e) = els {
                                taken = Some(e);
                            }
                        }
                    }
                    // dead payload
                    for (_, b) in chain.iter() {
                        if taken.map(|t| !std::ptr::eq(t, b)).unwrap_or(true) {
                            payload_of(b, &mut self.dead_payload);
                        }
                    }
                    if let Some(e) = els {
                        if taken.map(|t| !std::ptr::eq(t, e)).unwrap_or(true) {
                            payload_of(e, &mut self.dead_payload);
                        }
                    }
                    // `__LINE__ items in dead branches still consume their rendered slot
                    for (_, b) in chain.iter() {
                        if taken.map(|t| !std::ptr::eq(t, b)).unwrap_or(true) {
                            self.line_cursor[fi] += count_lines(b);
                        } else {
                            self.items(b, fi, depth)?;
                        }
                    }
                    if let Some(e) = els {
                        if taken.map(|t| !std::ptr::eq(t, e)).unwrap_or(true) {
                            self.line_cursor[fi] += count_lines(e);
                        } else {
                            self.items(e, fi, depth)?;
                        }
                    }
                }
                Item::Usage { name, args } => {
                    // nested expansions are flattened into the outermost usage's segment
                    let prov = match self.table.get(name) {
                        Some(TableEntry::Def(_, df, bb)) => Prov::Exp { name: name.clone(), def_file: *df, body_begin: *bb, usage: self.usage_counter },
                        _ => Prov::Synth(Some(self.usage_counter)),
                    };
                    self.usage_counter += 1;
                    let toks = self.expand(name, args.as_ref().map(|v| v.as_slice()), 1)?;
                    for t in toks {
                        self.out.push(t);
                        self.prov.push(prov.clone());
                    }
                }
                Item::Include { name, style } => {
                    let fname = if *style >= 2 {
                        // file named through a macro: its expansion is a quoted string
                        let toks = self.expand(name, None, 1)?;
                        toks.concat().trim_matches('"').to_string()
                    } else {
                        name.clone()
                    };
                    match self.prog.files.iter().position(|f| f.name == fname) {
                        Some(i) => {
                            let saved = self.line_cursor[i];
                            self.line_cursor[i] = 0;
                            let r = self.file(i, depth + 1);
                            self.line_cursor[i] = saved;
                            match r {
                                Ok(()) => {}
                                Err(e) => return Err(ErrExp { wraps: e.wraps + 1, kind: e.kind }),
                            }
                        }
                        None => return Err(ErrExp { wraps: 1, kind: ErrKind::File(fname) }),
                    }
                }
            }
        }
        Ok(())
    }

    /// expected tokens of one usage
    fn expand(&mut self, name: &str, args: Option<&[Option<String>]>, depth: usize) -> Result<Vec<String>, ErrExp> {
        if depth > 64 {
            return Err(err(ErrKind::Recursion));
        }
        let entry = match self.table.get(name) {
            Some(e) => e.clone(),
            None => {
                if is_cov(name) && !self.cov_cleared {
                    let v = match name {
                        "SV_COV_START" => "0",
                        "SV_COV_STOP" => "1",
                        "SV_COV_RESET" => "2",
                        "SV_COV_CHECK" => "3",
                        "SV_COV_MODULE" => "10",
                        "SV_COV_HIER" => "11",
                        "SV_COV_ASSERTION" => "20",
                        "SV_COV_FSM_STATE" => "21",
                        "SV_COV_STATEMENT" => "22",
                        "SV_COV_TOGGLE" => "23",
                        "SV_COV_OVERFLOW" => "-2",
                        "SV_COV_ERROR" => "-1",
                        "SV_COV_NOCOV" => "0",
                        "SV_COV_OK" => "1",
                        "SV_COV_PARTIAL" => "2",
                        _ => return Err(err(ErrKind::DefineNotFound(name.to_string()))),
                    };
                    let mut o = Vec::new();
                    lex_into(&mut o, v);
                    return Ok(o);
                }
                return Err(err(ErrKind::DefineNotFound(name.to_string())));
            }
        };
        // parenthesis after a formal-less macro is preserved as text (and re-preprocessed with the expansion)
        let paren_text: Option<String> = args.map(|a| format!("({})", a.iter().map(|x| x.clone().unwrap_or_default()).collect::<Vec<_>>().join(",")));
        match entry {
            TableEntry::Bare | TableEntry::ExtNoBody => Ok(Vec::new()),
            TableEntry::Ext(body) => {
                let mut o = Vec::new();
                lex_into(&mut o, &body);
                if let Some(p) = &paren_text {
                    self.text_with_usages(p, depth, &mut o)?;
                }
                Ok(o)
            }
            TableEntry::Def(m, _, _) => {
                let empty = vec![];
                let formals = m.formals.as_ref().unwrap_or(&empty);
                if !formals.is_empty() && args.is_none() {
                    return Err(err(ErrKind::DefineNoArgs(m.name.clone())));
                }
                let mut vals: Vec<String> = Vec::new();
                for (i, (f, d)) in formals.iter().enumerate() {
                    let a = args.and_then(|a| a.get(i));
                    let v = match a {
                        // (an actual that spans lines -- a line comment inside it -- carries the file's line endings
                        // into a stringified result)
                        Some(Some(x)) if !x.trim().is_empty() => {
                            if self.rendered.crlf && x.contains('\n') && !x.contains('\r') {
                                x.trim().replace('\n', "\r\n")
                            } else {
                                x.trim().to_string()
                            }
                        }
                        Some(_) => d.clone().unwrap_or_default(),
                        None => match d {
                            Some(d) => d.clone(),
                            None => return Err(err(ErrKind::DefineArgNotFound(f.clone()))),
                        },
                    };
                    vals.push(v);
                }
                let body = match &m.body {
                    None => return Ok(Vec::new()),
                    Some(b) => b.clone(),
                };
                let mut o = Vec::new();
                let mut body = body;
                let mut paren_text = paren_text;
                if formals.is_empty() && m.formals.is_none() && paren_text.is_some() {
                    // text level: the restored argument list directly follows the body, so a body that ends in an
                    // argument-less usage hands the list to that usage
                    if let Some(Piece::Use(n, None)) = body.last().cloned() {
                        let a: Vec<Option<Vec<Piece>>> = args.unwrap().iter().map(|x| x.as_ref().map(|t| vec![Piece::Tok(t.clone())])).collect();
                        body.pop();
                        body.push(Piece::Use(n, Some(a)));
                        paren_text = None;
                    }
                }
                for p in &body {
                    self.piece(p, &vals, formals, depth, &mut o)?;
                }
                if formals.is_empty() && m.formals.is_none() {
                    if let Some(p) = &paren_text {
                        self.text_with_usages(p, depth, &mut o)?;
                    }
                }
                Ok(o)
            }
        }
    }

    fn piece_text(&self, p: &Piece, vals: &[String]) -> String {
        match p {
            Piece::Tok(t) => t.clone(),
            Piece::Formal(i) => vals[*i].clone(),
            Piece::Paste(v) => v.iter().map(|x| self.piece_text(x, vals)).collect::<Vec<_>>().concat(),
            Piece::Strfy(v) => format!("\"{}\"", v.iter().map(|x| self.piece_text(x, vals)).collect::<Vec<_>>().join(" ")),
            Piece::Str(s) => format!("\"{}\"", s),
            Piece::Use(..) | Piece::Cont | Piece::Cmt(_) | Piece::DefStmt(..) | Piece::UndefStmt(..) => String::new(),
        }
    }

    fn piece(
        &mut self,
        p: &Piece,
        vals: &[String],
        formals: &[(String, Option<String>)],
        depth: usize,
        o: &mut Vec<String>,
    ) -> Result<(), ErrExp> {
        match p {
            Piece::Tok(t) => {
                if self.q.d12 && t.contains('$') {
                    // `$` splits identifiers: parts equal to a formal's name are substituted
                    let mut s = String::new();
                    for (k, part) in t.split('$').enumerate() {
                        if k > 0 {
                            s.push('$');
                        }
                        match formals.iter().position(|(f, _)| f == part) {
                            Some(i) => s.push_str(&vals[i]),
                            None => s.push_str(part),
                        }
                    }
                    lex_into(o, &s);
                } else {
                    o.push(t.clone())
                }
            }
            Piece::Formal(i) => {
                // actual arguments are text: usages inside them are expanded when the expansion is re-preprocessed
                self.text_with_usages(&vals[*i], depth, o)?;
            }
            // the expansion is re-preprocessed as text: a stringification whose arguments contain quotes does
            // not stay one string token, and a paste can form a new macro usage
            Piece::Paste(_) | Piece::Strfy(_) => {
                let t = self.piece_text(p, vals);
                self.text_with_usages(&t, depth, o)?;
            }
            Piece::Str(_) => o.push(self.piece_text(p, vals)),
            Piece::Cont | Piece::Cmt(_) => {}
            Piece::DefStmt(n, b) => {
                // the expansion is re-preprocessed: the definition is kept in the output and adopted into the table
                let name = self.piece_text(n, vals).trim().to_string();
                o.push("`define".into());
                o.push(name.clone());
                lex_into(o, b);
                if !is_pre(&name) {
                    let m = MacroDef { name: name.clone(), formals: None, body: Some(vec![Piece::Tok(b.clone())]) };
                    self.table.insert(name, TableEntry::Def(m, usize::MAX / 4, 0));
                }
            }
            Piece::UndefStmt(n) => {
                let name = self.piece_text(n, vals).trim().to_string();
                o.push("`undef".into());
                o.push(name.clone());
                self.table.remove(&name);
            }
            Piece::Use(n, args) => {
                let a: Option<Vec<Option<String>>> = args.as_ref().map(|v| {
                    v.iter()
                        .map(|x| x.as_ref().map(|ps| ps.iter().map(|q| self.piece_text(q, vals)).collect::<Vec<_>>().join(" ")))
                        .collect()
                });
                let t = self.expand(n, a.as_deref(), depth + 1)?;
                o.extend(t);
            }
        }
        Ok(())
    }

    /// tokens of a text that may contain object-like usages `NAME (generated actuals only use those)
    fn text_with_usages(&mut self, s: &str, depth: usize, o: &mut Vec<String>) -> Result<(), ErrExp> {
        let (toks, _) = lexer::lex(s);
        for t in toks {
            if lexer::is_trivia(t.k) {
                continue;
            }
            let tx = &s[t.s..t.e];
            if t.k == lexer::K::Tick {
                let e = self.expand(&tx[1..], None, depth + 1)?;
                o.extend(e);
            } else {
                o.push(tx.to_string());
            }
        }
        Ok(())
    }
}

/// length of "`define NAME" or "`define NAME(formals)": the body text (with its leading blank) starts there
pub fn define_head_len(m: &MacroDef) -> usize {
    let mut n = "`define ".len() + m.name.len();
    if let Some(fs) = &m.formals {
        n += 1;
        for (i, (f, d)) in fs.iter().enumerate() {
            if i > 0 {
                n += 2;
            }
            n += f.len();
            if let Some(x) = d {
                n += 3 + x.len();
            }
        }
        n += 1;
    }
    n
}

fn count_lines(items: &[Item]) -> usize {
    let mut n = 0;
    for it in items {
        match it {
            Item::Line => n += 1,
            Item::Cond { chain, els, .. } => {
                for (_, b) in chain {
                    n += count_lines(b);
                }
                if let Some(e) = els {
                    n += count_lines(e);
                }
            }
            _ => {}
        }
    }
    n
}

// ----------------------------------------------------------------------------
// generation

#[derive(Clone, Debug)]
pub struct GenOpts {
    pub max_depth: usize,
    pub cond_weight: usize,
    pub macro_weight: usize,
    pub function_macros: bool,
    pub misuse: bool,
    pub predefined_names: bool,
    pub kept_directives: bool,
    pub line_file: bool,
    pub dollar_names: bool,
    pub undefineall: bool,
    pub strings_comments: bool,
    pub sv_cov: bool,
    /// macro bodies may end in a `define / `undef (define-generating macros)
    pub define_in_body: bool,
}

impl Default for GenOpts {
    fn default() -> Self {
        GenOpts {
            max_depth: 4,
            cond_weight: 25,
            macro_weight: 25,
            function_macros: true,
            misuse: false,
            predefined_names: true,
            kept_directives: true,
            line_file: true,
            dollar_names: false,
            undefineall: true,
            strings_comments: true,
            sv_cov: false,
            define_in_body: false,
        }
    }
}

pub struct Gen<'r> {
    pub r: &'r mut Rng,
    pub uid: u32,
    pub o: GenOpts,
    /// macros that are certainly defined at the current generation point is not tracked: usages pick
    /// from `known` (defined earlier in program order, possibly in a dead branch) and the reference decides
    pub known: Vec<MacroDef>,
    pub cond_names: Vec<String>,
    pub misuse_budget: usize,
    /// an `undefineall was emitted earlier in program order: SV_COV_* names are no longer tested
    /// (each nested run re-installs them; the statement sets these constants aside)
    pub undefall_emitted: bool,
    /// names of define-generating macros: defined once, never redefined (the generator must know their live shape)
    pub frozen: std::collections::HashSet<String>,
    /// names defined through the formal of a define-generating macro so far
    pub generated: Vec<String>,
}

const KEPT: &[&str] = &[
    "`timescale 1ns/1ps",
    "`default_nettype none",
    "`default_nettype wire",
    "`celldefine",
    "`endcelldefine",
    "`unconnected_drive pull1",
    "`nounconnected_drive",
    "`line 3 \"x.v\" 1",
    "`resetall",
    "`pragma protect",
    "`begin_keywords \"1800-2012\"",
    "`end_keywords",
];

impl<'r> Gen<'r> {
    pub fn new(r: &'r mut Rng, o: GenOpts) -> Gen<'r> {
        Gen { r, uid: 0, o, known: Vec::new(), cond_names: vec!["A".into(), "B".into(), "C".into(), "D".into()], misuse_budget: 0, undefall_emitted: false, frozen: Default::default(), generated: Vec::new() }
    }
    pub fn fresh(&mut self, p: &str) -> String {
        self.uid += 1;
        format!("{}{}", p, self.uid)
    }

    fn actual(&mut self, allow_usage: bool) -> String {
        if allow_usage && self.o.strings_comments && self.r.chance(1, 14) {
            // a comment inside the argument (also a // comment in an argument list that spans lines)
            return match self.r.below(3) {
                0 => format!("{} /* {} */ + {}", self.fresh("a"), self.fresh("c"), self.fresh("a")),
                1 => format!("{} // {}\n + {}", self.fresh("a"), self.fresh("c"), self.fresh("a")),
                _ => format!("// {}\n {}", self.fresh("c"), self.fresh("a")),
            };
        }
        let k = self.r.below(100);
        match if !allow_usage && k > 92 { 0 } else { k } {
            0..=34 => self.fresh("a"),
            35..=49 => format!("{} + {}", self.fresh("a"), self.fresh("a")),
            50..=59 => format!("f{}({}, {})", self.r.below(9), self.fresh("a"), self.fresh("a")),
            60..=67 => format!("[{}:{}]", self.fresh("a"), self.fresh("a")),
            68..=75 => format!("{{{}, {}}}", self.fresh("a"), self.fresh("a")),
            76..=85 => format!("\"{},{})\"", self.fresh("s"), self.fresh("s")),
            86..=92 => format!("({})", self.fresh("a")),
            _ => {
                // object-like usage inside an actual argument
                let cands: Vec<String> = self.known.iter().filter(|m| m.formals.is_none() && m.body.is_some()).map(|m| m.name.clone()).collect();
                if cands.is_empty() {
                    self.fresh("a")
                } else {
                    // usage in the middle: text after an argument-less usage must not be able to start with `(`,
                    // and a usage must not directly follow a piece that renders as a string (K1 steering)
                    format!("{} `{} {}", self.fresh("a"), self.r.pick(&cands), self.fresh("a"))
                }
            }
        }
    }

    fn body_piece(&mut self, nf: usize, formals: &[(String, Option<String>)]) -> Piece {
        let k = self.r.below(100);
        if self.r.chance(1, 16) {
            return Piece::Cmt(format!("/* {} */", self.fresh("c")));
        }
        if nf == 0 {
            return match k {
                0..=69 => Piece::Tok(self.fresh("b")),
                70..=79 => Piece::Str(format!("{} q", self.fresh("q"))),
                _ => self.nested_use(nf),
            };
        }
        match k {
            0..=24 => Piece::Tok(self.fresh("b")),
            25..=49 => Piece::Formal(self.r.below(nf)),
            50..=59 => {
                let n = self.r.range(2, 3);
                Piece::Paste((0..n).map(|_| if self.r.chance(1, 2) { Piece::Tok(self.fresh("b")) } else { Piece::Formal(self.r.below(nf)) }).collect())
            }
            60..=69 => {
                let n = self.r.range(1, 3);
                Piece::Strfy((0..n).map(|_| if self.r.chance(1, 2) { Piece::Tok(self.fresh("b")) } else { Piece::Formal(self.r.below(nf)) }).collect())
            }
            70..=77 => Piece::Str(format!("{} {}", formals[self.r.below(nf)].0, self.fresh("q"))),
            78..=81 if self.o.dollar_names => Piece::Tok(format!("{}${}", self.fresh("b"), formals[self.r.below(nf)].0)),
            78..=84 => Piece::Cont,
            _ => self.nested_use(nf),
        }
    }

    fn nested_use(&mut self, nf: usize) -> Piece {
        let cands: Vec<MacroDef> = self.known.iter().filter(|m| m.body.is_some()).cloned().collect();
        if cands.is_empty() {
            return Piece::Tok(self.fresh("b"));
        }
        // wrappers around define-generating macros are the interesting nesting: prefer them now and then
        let gens: Vec<MacroDef> = cands.iter().filter(|m| matches!(m.body.as_ref().and_then(|b| b.last()), Some(Piece::DefStmt(..)) | Some(Piece::UndefStmt(..)))).cloned().collect();
        let m = if !gens.is_empty() && self.r.chance(1, 3) { self.r.pick(&gens).clone() } else { self.r.pick(&cands).clone() };
        let name_formal = def_name_formal(&m);
        let args = m.formals.as_ref().map(|fs| {
            fs.iter()
                .enumerate()
                .map(|(ix, _)| {
                    if name_formal == Some(ix) {
                        // the name of a generated definition is always a plain fresh identifier
                        return Some(vec![Piece::Tok(self.fresh("G"))]);
                    }
                    if nf > 0 && self.r.chance(2, 5) {
                        Some(vec![Piece::Formal(self.r.below(nf))])
                    } else {
                        Some(vec![Piece::Tok(self.fresh("a"))])
                    }
                })
                .collect()
        });
        Piece::Use(m.name, args)
    }

    pub fn macro_def(&mut self) -> MacroDef {
        let mut name = if self.r.chance(1, 6) && !self.known.is_empty() {
            // redefinition
            self.r.pick(&self.known).name.clone()
        } else {
            self.fresh("M")
        };
        if self.frozen.contains(&name) {
            name = self.fresh("M");
        }
        let nf = if self.o.function_macros { *self.r.pick(&[0usize, 0, 1, 2, 3]) } else { 0 };
        let mut formals = Vec::new();
        for _ in 0..nf {
            let d = if self.r.chance(2, 5) {
                Some(match self.r.below(3) {
                    0 => self.fresh("d"),
                    1 => format!("({},{})", self.fresh("d"), self.fresh("d")),
                    _ => format!("\"{}\"", self.fresh("d")),
                })
            } else {
                None
            };
            // a formal may be spelled like a reserved word of the language (not of the directive names)
            let fname = if self.r.chance(1, 8) {
                let w = *self.r.pick(&["type", "bit", "logic", "string", "int", "reg", "wire", "begin", "end", "module", "input", "signed", "var"]);
                if formals.iter().any(|(f, _): &(String, Option<String>)| f == w) {
                    self.fresh("p")
                } else {
                    w.to_string()
                }
            } else {
                self.fresh("p")
            };
            formals.push((fname, d));
        }
        let mut generating = false;
        let body = if self.r.chance(1, 10) {
            None
        } else {
            let n = self.r.range(1, 6);
            let mut b: Vec<Piece> = Vec::new();
            for _ in 0..n {
                let p = self.body_piece(nf, &formals);
                // K1 steering: a nested usage never directly follows a piece that can render as a string;
                // a continuation is never first or doubled
                let can_be_string = |q: &Piece| matches!(q, Piece::Str(_) | Piece::Strfy(_) | Piece::Formal(_) | Piece::Use(..) | Piece::Paste(_));
                // (a comment between two pieces is transparent for these rules)
                let last_sig = b.iter().rev().find(|q| !matches!(q, Piece::Cmt(_))).cloned();
                if matches!(p, Piece::Use(..)) && last_sig.as_ref().map(|q| can_be_string(q) || matches!(q, Piece::Cont)).unwrap_or(false) {
                    b.push(Piece::Tok(self.fresh("b")));
                }
                if matches!(p, Piece::Cont) && (b.is_empty() || matches!(b.last(), Some(Piece::Cont))) {
                    continue;
                }
                // text after an argument-less nested usage must not be able to start with `(` (an actual
                // argument or default such as `(a1)` would be read as the usage's argument list)
                if matches!(last_sig, Some(Piece::Use(_, None))) && matches!(p, Piece::Formal(_) | Piece::Paste(_) | Piece::Cont) {
                    b.push(Piece::Tok(self.fresh("b")));
                }
                if matches!(p, Piece::Str(_)) {
                    b.push(p);
                    b.push(Piece::Tok(";".into()));
                    continue;
                }
                b.push(p);
            }
            while matches!(b.last(), Some(Piece::Cont)) {
                b.pop();
            }
            if b.is_empty() {
                b.push(Piece::Tok(self.fresh("b")));
            }
            if self.o.define_in_body && self.r.chance(1, 5) {
                // the rest of the line belongs to the generated directive, so it is the last piece; the piece before
                // it is a plain token (no literal / usage directly in front of a directive: K1 steering)
                if !matches!(b.last(), Some(Piece::Tok(_))) {
                    b.push(Piece::Tok(self.fresh("b")));
                }
                let name: Piece = if nf > 0 && self.r.chance(1, 2) { Piece::Formal(self.r.below(nf)) } else { Piece::Tok(self.fresh("G")) };
                if self.r.chance(3, 4) {
                    b.push(Piece::DefStmt(Box::new(name), self.fresh("g")));
                } else {
                    b.push(Piece::UndefStmt(Box::new(name)));
                }
                generating = true;
            }
            Some(b)
        };
        let name = if generating {
            // defined exactly once under a name of its own
            let n = self.fresh("MK");
            self.frozen.insert(n.clone());
            n
        } else {
            name
        };
        let m = MacroDef { name, formals: if nf > 0 { Some(formals) } else { None }, body };
        self.known.retain(|x| x.name != m.name);
        self.known.push(m.clone());
        m
    }

    pub fn usage(&mut self) -> Item {
        if self.known.is_empty() || (self.o.misuse && self.misuse_budget > 0 && self.r.chance(1, 12)) {
            if self.o.misuse && self.misuse_budget > 0 {
                self.misuse_budget -= 1;
                let n = self.fresh("UNDEF");
                return Item::Usage { name: n, args: None };
            }
            return Item::Tok(self.fresh("t"));
        }
        let m = self.r.pick(&self.known).clone();
        let args = match &m.formals {
            None => {
                // (only when the expansion ends in a plain token: after a trailing argument-less usage the
                // parenthesis would be read as that usage's argument list)
                if self.r.chance(1, 12) && m.body.as_ref().map(|b| matches!(b.last(), Some(Piece::Tok(_)))).unwrap_or(false) {
                    // parenthesis after a formal-less macro is preserved as text
                    Some(vec![Some(self.actual(true))])
                } else {
                    None
                }
            }
            Some(fs) => {
                if self.o.misuse && self.misuse_budget > 0 && self.r.chance(1, 10) {
                    self.misuse_budget -= 1;
                    None // DefineNoArgs
                } else {
                    let mut v: Vec<Option<String>> = Vec::new();
                    let mut n = fs.len();
                    if def_name_formal(&m).is_some() {
                        // all arguments given: the one that names the generated definition must be an identifier
                    } else if self.o.misuse && self.misuse_budget > 0 && self.r.chance(1, 10) && n > 0 {
                        self.misuse_budget -= 1;
                        n -= 1; // missing trailing argument: default or DefineArgNotFound
                    } else if fs.last().map(|f| f.1.is_some()).unwrap_or(false) && self.r.chance(1, 4) {
                        n -= 1; // trailing argument omitted, default exists
                    }
                    let name_formal = def_name_formal(&m);
                    for (i, (_f, d)) in fs.iter().enumerate().take(n) {
                        if name_formal == Some(i) {
                            // this argument becomes the name of a generated definition: a fresh identifier
                            // ... or, one time in three, a name that an earlier generated definition already carries: the
                            // table is then edited from inside an expansion (redefinition with another body, the same
                            // setter usage repeated verbatim, removal) between two usages of that name
                            let g = if !self.generated.is_empty() && self.r.chance(1, 3) { self.r.pick(&self.generated).clone() } else { self.fresh("G") };
                            self.known.retain(|x| x.name != g);
                            if let Some(Piece::DefStmt(_, b)) = m.body.as_ref().and_then(|b| b.last()) {
                                let gm = MacroDef { name: g.clone(), formals: None, body: Some(vec![Piece::Tok(b.clone())]) };
                                self.known.push(gm);
                                if !self.generated.contains(&g) {
                                    self.generated.push(g.clone());
                                }
                            }
                            v.push(Some(g));
                        } else if d.is_some() && self.r.chance(1, 3) {
                            v.push(None);
                        } else {
                            // a usage inside an actual is only generated when the formal stands alone in the body:
                            // pasted or stringified next to other text the expansion merges on the text level
                            let alone = m.body.as_ref().map(|b| formal_stands_alone(b, i)).unwrap_or(true);
                            v.push(Some(self.actual(alone)));
                        }
                    }
                    if v.is_empty() {
                        // `()` is one empty actual argument
                        v.push(None);
                    }
                    Some(v)
                }
            }
        };
        Item::Usage { name: m.name.clone(), args }
    }

    /// Setter / getter burst: two define-generating macros that give the name passed to them two different
    /// bodies, then a run of setter usages and reads of the names (the same usage text recurs while the table
    /// changes underneath it, only ever from inside an expansion).
    fn setter_burst(&mut self) -> Vec<Item> {
        let mut v = Vec::new();
        let mut setters: Vec<(String, String)> = Vec::new();
        for _ in 0..2 {
            let n = self.fresh("MK");
            self.frozen.insert(n.clone());
            let g = self.fresh("g");
            let f = self.fresh("p");
            let lead = self.fresh("b");
            let m = MacroDef { name: n.clone(), formals: Some(vec![(f, None)]), body: Some(vec![Piece::Tok(lead), Piece::DefStmt(Box::new(Piece::Formal(0)), g.clone())]) };
            self.known.push(m.clone());
            v.push(Item::Define(m));
            setters.push((n, g));
        }
        let names = [self.fresh("G"), self.fresh("G")];
        for g in &names {
            v.push(Item::Usage { name: setters[0].0.clone(), args: Some(vec![Some(g.clone())]) });
            self.known.retain(|x| x.name != *g);
            self.known.push(MacroDef { name: g.clone(), formals: None, body: Some(vec![Piece::Tok(setters[0].1.clone())]) });
            if !self.generated.contains(g) {
                self.generated.push(g.clone());
            }
        }
        for _ in 0..self.r.range(3, 9) {
            let g = self.r.pick(&names).clone();
            if self.r.chance(2, 5) {
                let st = self.r.pick(&setters).clone();
                v.push(Item::Usage { name: st.0, args: Some(vec![Some(g)]) });
            } else {
                v.push(Item::Usage { name: g, args: None });
                v.push(Item::Tok(";".into()));
            }
        }
        v
    }

    pub fn block(&mut self, depth: usize, max_items: usize) -> Vec<Item> {
        let mut items = Vec::new();
        let n = self.r.range(0, max_items);
        if depth == 0 && self.o.define_in_body && self.r.chance(1, 10) {
            items.extend(self.setter_burst());
        }
        for _ in 0..n {
            let k = self.r.below(100);
            let cw = self.o.cond_weight;
            let mw = self.o.macro_weight;
            if k < 30 {
                items.push(Item::Tok(self.fresh("t")));
            } else if k < 30 + cw && depth < self.o.max_depth {
                let pick_name = |g: &mut Gen| -> String {
                    let k = g.r.below(100);
                    if g.o.predefined_names && k < 10 {
                        g.r.pick(&["__LINE__", "__FILE__"]).to_string()
                    } else if g.o.sv_cov && !g.undefall_emitted && k < 16 {
                        g.r.pick(&["SV_COV_START", "SV_COV_OK", "SV_COV_ERROR"]).to_string()
                    } else if k < 30 && !g.known.is_empty() {
                        g.r.pick(&g.known).name.clone()
                    } else {
                        g.r.pick(&g.cond_names).clone()
                    }
                };
                let ifndef = self.r.chance(1, 3);
                let sub = if depth == 0 { 3 } else { 2 };
                let mut chain = vec![(pick_name(self), self.block(depth + 1, sub))];
                for _ in 0..*self.r.pick(&[0usize, 0, 0, 1, 1, 2, 4]) {
                    chain.push((pick_name(self), self.block(depth + 1, sub)));
                }
                let els = if self.r.chance(1, 2) { Some(self.block(depth + 1, sub)) } else { None };
                items.push(Item::Cond { ifndef, chain, els });
            } else if k < 30 + cw + mw {
                match self.r.below(10) {
                    0 if !self.known.is_empty() && self.r.chance(1, 2) => {
                        // the same definition once more (a header included twice, a copy in another file)
                        let m = self.r.pick(&self.known).clone();
                        self.known.retain(|x| x.name != m.name);
                        self.known.push(m.clone());
                        items.push(Item::Define(m));
                    }
                    0..=3 => {
                        let m = self.macro_def();
                        items.push(Item::Define(m));
                    }
                    4 => {
                        // plain flag definitions for the conditional names
                        let n = self.r.pick(&self.cond_names).clone();
                        let body = if self.r.chance(1, 2) { Some(vec![Piece::Tok(self.fresh("v"))]) } else { None };
                        let m = MacroDef { name: n, formals: None, body };
                        self.known.retain(|x| x.name != m.name);
                        self.known.push(m.clone());
                        items.push(Item::Define(m));
                    }
                    5 => {
                        let n = if self.r.chance(1, 2) || self.known.is_empty() { self.r.pick(&self.cond_names).clone() } else { self.r.pick(&self.known).name.clone() };
                        if self.frozen.contains(&n) {
                            continue;
                        }
                        items.push(Item::Undef(n));
                    }
                    6 if self.o.undefineall && self.r.chance(1, 3) => {
                        self.undefall_emitted = true;
                        items.push(Item::UndefAll)
                    }
                    _ => {
                        let u = self.usage();
                        items.push(u);
                    }
                }
            } else if k < 90 && self.o.strings_comments {
                match self.r.below(4) {
                    0 => items.push(Item::Str(format!("{} `endif `else", self.fresh("s")))),
                    1 => items.push(Item::Comment(format!("/* `endif {} */", self.fresh("c")))),
                    2 => items.push(Item::Comment(format!("// `else `endif {}", self.fresh("c")))),
                    _ => items.push(Item::Str(format!("{}\\\"q", self.fresh("s")))),
                }
            } else if k < 95 && self.o.kept_directives {
                items.push(Item::Kept(self.r.pick(KEPT).to_string()));
            } else if k < 98 && self.o.line_file {
                items.push(if self.r.chance(1, 2) { Item::Line } else { Item::File });
            } else {
                items.push(Item::Tok(self.fresh("t")));
            }
        }
        items
    }
}

/// index of the formal that names the definition generated by the macro's last piece
fn def_name_formal(m: &MacroDef) -> Option<usize> {
    match m.body.as_ref().and_then(|b| b.last()) {
        Some(Piece::DefStmt(n, _)) | Some(Piece::UndefStmt(n)) => match **n {
            Piece::Formal(i) => Some(i),
            _ => None,
        },
        _ => None,
    }
}

fn formal_stands_alone(body: &[Piece], i: usize) -> bool {
    fn mentions(p: &Piece, i: usize) -> bool {
        match p {
            Piece::Formal(j) => *j == i,
            Piece::Paste(v) | Piece::Strfy(v) => v.iter().any(|q| mentions(q, i)),
            Piece::Use(_, Some(a)) => a.iter().any(|x| x.as_ref().map(|ps| ps.iter().any(|q| mentions(q, i))).unwrap_or(false)),
            _ => false,
        }
    }
    body.iter().all(|p| match p {
        Piece::Formal(_) => true,
        other => !mentions(other, i),
    })
}

/// recompute `known` semantics is not needed: the reference evaluates against the live table.
pub fn single_file(r: &mut Rng, o: GenOpts, max_items: usize) -> Prog {
    let mut g = Gen::new(r, o);
    g.misuse_budget = if g.o.misuse { 1 } else { 0 };
    let mut predefs = Vec::new();
    if g.r.chance(1, 3) {
        for n in ["A", "B", "C", "D"] {
            if g.r.chance(1, 3) {
                let uid = g.fresh("ext");
                predefs.push((
                    n.to_string(),
                    match g.r.below(3) {
                        0 => PreDef::Bare,
                        1 => PreDef::NoBody,
                        _ => PreDef::Body(uid),
                    },
                ));
            }
        }
    }
    let items = g.block(0, max_items);
    Prog { files: vec![FileSrc { name: "top.sv".into(), items }], predefs }
}

// ----------------------------------------------------------------------------
// multi-file programs (include graphs)

pub struct MultiGen<'r> {
    pub g: Gen<'r>,
    pub files: Vec<FileSrc>,
    pub max_files: usize,
}

impl<'r> MultiGen<'r> {
    /// generate the items of a file; `` `include`` items pull in further files (generated on first use)
    fn file_items(&mut self, depth: usize, max_items: usize) -> Vec<Item> {
        let mut items = Vec::new();
        let n = self.g.r.range(2, max_items);
        for _ in 0..n {
            let k = self.g.r.below(100);
            if k < 22 && depth < 3 {
                // include: an existing file (same file twice) or a new one
                let reuse = !self.files.is_empty() && self.g.r.chance(1, 4);
                let name = if reuse || self.files.len() >= self.max_files {
                    if self.files.is_empty() {
                        continue;
                    }
                    // only files that are already complete (no cycles): any file generated so far is complete
                    // except the ones currently being generated, which are not yet in `files`
                    self.g.r.pick(&self.files).name.clone()
                } else {
                    let name = format!("inc{}.svh", self.files.len() + 1 + depth * 10 + self.g.r.below(1000) * 100);
                    // now and then a zero-byte file
                    let sub = if self.g.r.chance(1, 10) { Vec::new() } else { self.file_items(depth + 1, 5) };
                    self.files.push(FileSrc { name: name.clone(), items: sub });
                    name
                };
                match self.g.r.below(5) {
                    0 | 1 => items.push(Item::Include { name, style: 0 }),
                    2 => items.push(Item::Include { name, style: 1 }),
                    _ => {
                        // file named through a macro
                        let m = self.g.fresh("INCF");
                        let def = MacroDef { name: m.clone(), formals: None, body: Some(vec![Piece::Str(name)]) };
                        self.g.known.retain(|x| x.name != m);
                        items.push(Item::Define(def));
                        items.push(Item::Include { name: m, style: 2 });
                    }
                }
            } else {
                let mut b = self.g.block(self.g.o.max_depth.saturating_sub(1), 1);
                items.append(&mut b);
            }
        }
        items
    }
}

pub fn multi_file(r: &mut Rng, o: GenOpts, max_files: usize) -> Prog {
    let g = Gen::new(r, o);
    let mut mg = MultiGen { g, files: Vec::new(), max_files };
    let top = mg.file_items(0, 8);
    let mut files = vec![FileSrc { name: "top.sv".into(), items: top }];
    files.append(&mut mg.files);
    Prog { files, predefs: Vec::new() }
}
