//! C16 monitor: traversal laws.

use std::collections::HashSet;
use sv_parser::*;

#[derive(Default, Debug, Clone)]
pub struct IterStats {
    pub nodes: u64,
    pub events: u64,
    pub sub_iters: u64,
    pub witness_items: u64,
    pub unwrap_checks: u64,
    pub trim_checks: u64,
    pub max_depth: u64,
    pub advanced_event_views: u64,
}

/// Parse the derived `Debug` rendering of a root node: sequence of struct names that
/// are node kinds ("S<name>") and Locate occurrences ("L<offset>:<len>"), in field order.
/// This does not use Node::next / RefNodes conversions.
pub fn debug_witness(d: &str, structs: &HashSet<String>) -> Vec<String> {
    let b = d.as_bytes();
    let mut out = Vec::new();
    let mut i = 0;
    while i < b.len() {
        if b[i] == b'"' {
            // no strings occur in derived Debug of the tree (Locate only has numbers), but be safe
            i += 1;
            while i < b.len() && b[i] != b'"' {
                if b[i] == b'\\' {
                    i += 1;
                }
                i += 1;
            }
            i += 1;
        } else if b[i].is_ascii_alphabetic() {
            let st = i;
            while i < b.len() && (b[i].is_ascii_alphanumeric() || b[i] == b'_') {
                i += 1;
            }
            let name = &d[st..i];
            if d[i..].starts_with(" {") {
                if name == "Locate" {
                    let end = d[i..].find('}').map(|x| x + i).unwrap_or(b.len());
                    let body = &d[i..end];
                    let nums: Vec<&str> = body.split(|c: char| !c.is_ascii_digit()).filter(|x| !x.is_empty()).collect();
                    if nums.len() >= 3 {
                        out.push(format!("L{}:{}", nums[0], nums[2]));
                    }
                    i = end;
                } else if structs.contains(name) {
                    out.push(format!("S{}", name));
                }
            }
        } else {
            i += 1;
        }
    }
    out
}

pub fn check_traversal<'a>(
    root_iter: impl Fn() -> Iter<'a>,
    structs: Option<&HashSet<String>>,
    sample_step: usize,
    st: &mut IterStats,
) -> Result<(), String> {
    let items: Vec<RefNode<'a>> = root_iter().collect();
    st.nodes += items.len() as u64;
    if items.is_empty() {
        return Err("iteration yields nothing".into());
    }
    // leaf offsets strictly increasing (source order)
    let mut last: Option<usize> = None;
    for n in &items {
        if let RefNode::Locate(l) = n {
            if let Some(p) = last {
                if l.offset <= p {
                    return Err(format!("leaf offset {} after {} in iteration order", l.offset, p));
                }
            }
            last = Some(l.offset);
        }
    }
    // events: balanced, properly nested, Enter projection == items
    let mut stack: Vec<(usize, RefNode<'a>)> = Vec::new();
    let mut enters = 0usize;
    let mut sizes: Vec<(usize, usize)> = Vec::new();
    for ev in root_iter().event() {
        st.events += 1;
        match ev {
            NodeEvent::Enter(x) => {
                if enters >= items.len() {
                    return Err("event view yields more Enter events than iteration yields nodes".into());
                }
                if !same_node(&items[enters], &x) {
                    return Err(format!("Enter #{} is {} but iteration yields {}", enters, x, items[enters]));
                }
                stack.push((enters, x));
                st.max_depth = st.max_depth.max(stack.len() as u64);
                enters += 1;
            }
            NodeEvent::Leave(x) => match stack.pop() {
                Some((s, y)) => {
                    if !same_node(&x, &y) {
                        return Err(format!("Leave({}) does not match innermost open Enter({})", x, y));
                    }
                    sizes.push((s, enters - s));
                }
                None => return Err(format!("Leave({}) without open Enter", x)),
            },
        }
    }
    if !stack.is_empty() {
        return Err(format!("{} Enter events without Leave", stack.len()));
    }
    if enters != items.len() {
        return Err(format!("event view has {} Enter events, iteration {} nodes", enters, items.len()));
    }
    // root first: first item's subtree is everything
    if let Some((s, n)) = sizes.last() {
        if *s != 0 || *n != items.len() {
            return Err("first yielded node does not enclose all others".into());
        }
    }
    // the event view may be taken from an iterator that has already been advanced, or that was built from several
    // nodes: its Enter projection is the rest of the plain iteration, and every Leave closes the innermost open Enter
    {
        let check_events = |evs: EventIter<'a>, want: &[RefNode<'a>], what: &str| -> Result<(), String> {
            let mut open: Vec<RefNode<'a>> = Vec::new();
            let mut k = 0usize;
            for ev in evs {
                match ev {
                    NodeEvent::Enter(x) => {
                        if k >= want.len() || !same_node(&want[k], &x) {
                            return Err(format!("{}: Enter #{} is {} but plain iteration continues with {}", what, k, x, want.get(k).map(|n| format!("{}", n)).unwrap_or_else(|| "nothing".into())));
                        }
                        open.push(x);
                        k += 1;
                    }
                    NodeEvent::Leave(x) => match open.pop() {
                        Some(y) if same_node(&x, &y) => {}
                        Some(y) => return Err(format!("{}: Leave({}) does not match innermost open Enter({})", what, x, y)),
                        None => return Err(format!("{}: Leave({}) without open Enter", what, x)),
                    },
                }
            }
            if k != want.len() || !open.is_empty() {
                return Err(format!("{}: {} Enter events for {} remaining nodes, {} left open", what, k, want.len(), open.len()));
            }
            Ok(())
        };
        let n = items.len();
        let mut ks = vec![1usize, 2, n / 3, n / 2, n - 1];
        ks.sort();
        ks.dedup();
        for k in ks {
            if k == 0 || k >= n {
                continue;
            }
            let mut it = root_iter();
            for _ in 0..k {
                it.next();
            }
            st.advanced_event_views += 1;
            check_events(it.event(), &items[k..], &format!("event view of an iterator advanced by {}", k))?;
        }
        // an iterator over two sibling subtrees
        let mut count_at: std::collections::HashMap<usize, usize> = std::collections::HashMap::new();
        for (s0, c) in &sizes {
            count_at.insert(*s0, *c);
        }
        let mut done = 0;
        for (s0, c) in sizes.iter().rev() {
            if done >= 3 {
                break;
            }
            // children of the node at s0: s0+1, then skip subtree by subtree
            let c1 = s0 + 1;
            if *c < 3 || c1 >= n {
                continue;
            }
            let n1 = *count_at.get(&c1).unwrap_or(&0);
            let c2 = c1 + n1;
            if n1 == 0 || c2 >= s0 + c {
                continue;
            }
            let n2 = *count_at.get(&c2).unwrap_or(&0);
            if n2 == 0 {
                continue;
            }
            let make = || Iter::new(RefNodes(vec![items[c1].clone(), items[c2].clone()]));
            let plain: Vec<RefNode<'a>> = make().collect();
            let want = &items[c1..c2 + n2];
            if plain.len() != want.len() || plain.iter().zip(want.iter()).any(|(a, b)| !same_node(a, b)) {
                return Err(format!("iteration over the two siblings {} and {} is not the corresponding slice of the parent's iteration", items[c1], items[c2]));
            }
            st.advanced_event_views += 1;
            check_events(make().event(), want, &format!("event view of an iterator over the siblings {} and {}", items[c1], items[c2]))?;
            done += 1;
        }
    }
    // sub-iteration of a node == slice of parent's iteration
    for (k, (s, n)) in sizes.iter().enumerate() {
        if sample_step > 1 && k % sample_step != 0 {
            continue;
        }
        st.sub_iters += 1;
        let sub: Vec<RefNode> = items[*s].clone().into_iter().collect();
        if sub.len() != *n {
            return Err(format!("sub-iteration of {} (index {}) yields {} nodes, events say {}", items[*s], s, sub.len(), n));
        }
        for (a, b) in sub.iter().zip(items[*s..*s + *n].iter()) {
            if !same_node(a, b) {
                return Err(format!("sub-iteration of {} (index {}) deviates: {} vs {}", items[*s], s, a, b));
            }
        }
    }
    // independent witness of order: derived Debug
    if let Some(structs) = structs {
        let dbg = format!("{:?}", items[0]);
        let w = debug_witness(&dbg, structs);
        let it: Vec<String> = items
            .iter()
            .filter_map(|n| match n {
                RefNode::Locate(l) => Some(format!("L{}:{}", l.offset, l.len)),
                x => {
                    let nm = format!("{}", x);
                    if structs.contains(&nm) {
                        Some(format!("S{}", nm))
                    } else {
                        None
                    }
                }
            })
            .collect();
        st.witness_items += w.len() as u64;
        if w != it {
            let k = w.iter().zip(it.iter()).position(|(a, b)| a != b).unwrap_or(w.len().min(it.len()));
            return Err(format!(
                "iteration order differs from field order (Debug witness) at item {}: witness {:?} iteration {:?} (lengths {} / {})",
                k,
                &w[k.saturating_sub(2)..(k + 3).min(w.len())],
                &it[k.saturating_sub(2)..(k + 3).min(it.len())],
                w.len(),
                it.len()
            ));
        }
    }
    Ok(())
}

fn same_node(a: &RefNode, b: &RefNode) -> bool {
    // pointer identity of the referenced node plus same variant
    std::mem::discriminant(a) == std::mem::discriminant(b) && node_ptr(a) == node_ptr(b)
}

pub fn node_ptr(n: &RefNode) -> usize {
    // every variant is `Variant(&'a T)`; the payload pointer sits behind the discriminant.
    // Compare through Debug-free means: use the address of the first leaf plus name is not
    // unique, so read the reference out generically.
    unsafe {
        // RefNode is a enum of references: layout = tag + pointer. Read the last word.
        let words = std::mem::size_of::<RefNode>() / std::mem::size_of::<usize>();
        let p = n as *const RefNode as *const usize;
        *p.add(words - 1)
    }
}

/// unwrap_node!/unwrap_locate! and get_str_trim on a sample of nodes of a syntax tree
pub fn check_macros_and_trim(tree: &SyntaxTree, text: &str, sample_step: usize, st: &mut IterStats) -> Result<(), String> {
    let items: Vec<RefNode> = tree.into_iter().collect();
    // first-match semantics on whole tree for a few kind sets
    let first = |pred: &dyn Fn(&RefNode) -> bool| items.iter().find(|n| pred(n)).cloned();
    macro_rules! chk {
        ($($ty:ident),+) => {{
            let got = unwrap_node!(tree, $($ty),+);
            let exp = first(&|n| match n { $(RefNode::$ty(_) => true,)+ _ => false });
            st.unwrap_checks += 1;
            match (&got, &exp) {
                (None, None) => {}
                (Some(a), Some(b)) if same_node(a, b) => {}
                _ => return Err(format!("unwrap_node!({}) = {:?} but first match in iteration order is {:?}",
                        stringify!($($ty),+), got.as_ref().map(|x| x.to_string()), exp.as_ref().map(|x| x.to_string()))),
            }
        }};
    }
    chk!(ModuleDeclaration);
    chk!(ModuleIdentifier);
    chk!(SimpleIdentifier, EscapedIdentifier);
    chk!(EscapedIdentifier, SimpleIdentifier);
    chk!(Keyword);
    chk!(Symbol);
    chk!(WhiteSpace);
    chk!(Comment);
    chk!(Expression, Statement);
    chk!(Number, StringLiteral);
    chk!(InstanceIdentifier, ModuleInstantiation);
    chk!(ContinuousAssign, NetDeclaration, DataDeclaration);
    chk!(CompilerDirective);
    chk!(LibraryDeclaration, IncludeStatement, ConfigDeclaration);
    {
        let got = unwrap_locate!(tree);
        let exp = items.iter().find_map(|n| if let RefNode::Locate(l) = n { Some(*l) } else { None });
        st.unwrap_checks += 1;
        match (got, exp) {
            (None, None) => {}
            (Some(a), Some(b)) if std::ptr::eq(a, b) => {}
            _ => return Err("unwrap_locate! is not the first Locate of the iteration".into()),
        }
    }
    // per-node: unwrap on sub-iteration, get_str_trim
    let mut k = 0usize;
    let mut stack: Vec<(RefNode, usize, Option<usize>, usize)> = Vec::new(); // node, index, first non-ws leaf, last non-ws end
    let mut ws = 0usize;
    let mut idx = 0usize;
    for ev in tree.into_iter().event() {
        match ev {
            NodeEvent::Enter(n) => {
                // WhiteSpace nodes: flag set on Enter(WhiteSpace); the Locate events under them are skipped
                if let RefNode::WhiteSpace(_) = n {
                    ws += 1;
                }
                if let RefNode::Locate(l) = &n {
                    if ws == 0 {
                        for e in stack.iter_mut() {
                            if e.2.is_none() {
                                e.2 = Some(l.offset);
                            }
                            e.3 = l.offset + l.len;
                        }
                        stack.push((n.clone(), idx, Some(l.offset), l.offset + l.len));
                    } else {
                        stack.push((n.clone(), idx, None, 0));
                    }
                } else {
                    stack.push((n, idx, None, 0));
                }
                idx += 1;
            }
            NodeEvent::Leave(n) => {
                let (node, i, beg, end) = stack.pop().unwrap();
                if let RefNode::WhiteSpace(_) = n {
                    ws -= 1;
                }
                k += 1;
                if sample_step > 1 && k % sample_step != 0 {
                    continue;
                }
                // A node that itself lies inside a WhiteSpace subtree: get_str_trim called on it starts
                // with skip=false and only flips on WhiteSpace events *inside* it; model that exactly:
                // the statement is about trailing white space of a node, so restrict to nodes outside ws.
                if ws > 0 {
                    continue;
                }
                if let RefNode::WhiteSpace(_) = node {
                    continue;
                }
                st.trim_checks += 1;
                let got = tree.get_str_trim(vec![node.clone()]);
                let exp = beg.map(|b| &text[b..end]);
                if got != exp {
                    return Err(format!(
                        "get_str_trim({}) = {:?}, first-to-last non-whitespace token slice is {:?}",
                        node,
                        got.map(|x| crate::util::clip(x, 80)),
                        exp.map(|x| crate::util::clip(x, 80))
                    ));
                }
                // unwrap_node! on the sub-iteration: first identifier below
                let sub_first = items[i..].iter().take_while(|_| true).skip(0).next();
                let _ = sub_first;
                let got = unwrap_node!(node.clone(), SimpleIdentifier, EscapedIdentifier, Keyword, Symbol);
                let exp = node.clone().into_iter().find(|n| {
                    matches!(n, RefNode::SimpleIdentifier(_) | RefNode::EscapedIdentifier(_) | RefNode::Keyword(_) | RefNode::Symbol(_))
                });
                st.unwrap_checks += 1;
                match (&got, &exp) {
                    (None, None) => {}
                    (Some(a), Some(b)) if same_node(a, b) => {}
                    _ => return Err(format!("unwrap_node! on sub-iteration of {} is not the first match", node)),
                }
            }
        }
    }
    Ok(())
}

/// names of all `pub struct X` node kinds of the syntax tree crate (excluding generic wrappers)
pub fn struct_names(src_root: &std::path::Path) -> HashSet<String> {
    let mut set = HashSet::new();
    fn walk(p: &std::path::Path, set: &mut HashSet<String>) {
        if let Ok(rd) = std::fs::read_dir(p) {
            for e in rd.flatten() {
                let p = e.path();
                if p.is_dir() {
                    walk(&p, set);
                } else if p.extension().map(|x| x == "rs").unwrap_or(false) {
                    if let Ok(s) = std::fs::read_to_string(&p) {
                        for l in s.lines() {
                            if let Some(r) = l.strip_prefix("pub struct ") {
                                let n: String = r.chars().take_while(|c| c.is_alphanumeric() || *c == '_').collect();
                                set.insert(n);
                            }
                        }
                    }
                }
            }
        }
    }
    walk(src_root, &mut set);
    for g in ["Paren", "Brace", "Bracket", "ApostropheBrace", "List", "Locate", "RefNodes", "Iter", "NodeEvents", "EventIter"] {
        set.remove(g);
    }
    set
}
