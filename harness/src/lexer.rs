//! Small SystemVerilog lexer used by monitors on *outputs* and by mutators to find
//! token / trivia boundaries.  Deliberately coarse: words are maximal runs of
//! [A-Za-z0-9_$], every other non-blank byte is its own punctuation token.

#[derive(Clone, Copy, Debug, PartialEq, Eq)]
pub enum K {
    Ws,
    LineComment,
    BlockComment,
    Str,
    EscId,
    Word,
    Tick, // `name
    Punct,
}

#[derive(Clone, Copy, Debug, PartialEq, Eq)]
pub struct Tok {
    pub k: K,
    pub s: usize,
    pub e: usize,
}

#[derive(Debug, Clone, PartialEq, Eq)]
pub enum LexFault {
    UnterminatedString(usize),
    UnterminatedBlockComment(usize),
    LoneBackslash(usize),
}

fn is_word(c: u8) -> bool {
    c.is_ascii_alphanumeric() || c == b'_' || c == b'$'
}

fn is_ws(c: u8) -> bool {
    c == b' ' || c == b'\t' || c == b'\n' || c == b'\r' || c == 0x0c
}

/// Lex the whole text; on a lexical fault returns the tokens so far and the fault.
pub fn lex(text: &str) -> (Vec<Tok>, Option<LexFault>) {
    lex_mode(text, false)
}

/// `strict`: a backslash followed by white space / end of text is a fault (the preprocessor's view);
/// otherwise it is a punctuation token (line continuations in kept `define text)
pub fn lex_mode(text: &str, strict: bool) -> (Vec<Tok>, Option<LexFault>) {
    let b = text.as_bytes();
    let n = b.len();
    let mut i = 0;
    let mut out = Vec::new();
    while i < n {
        let c = b[i];
        let s = i;
        if is_ws(c) {
            while i < n && is_ws(b[i]) {
                i += 1;
            }
            out.push(Tok { k: K::Ws, s, e: i });
        } else if c == b'/' && i + 1 < n && b[i + 1] == b'/' {
            while i < n && b[i] != b'\n' {
                i += 1;
            }
            out.push(Tok { k: K::LineComment, s, e: i });
        } else if c == b'/' && i + 1 < n && b[i + 1] == b'*' {
            match text[i + 2..].find("*/") {
                Some(p) => {
                    i = i + 2 + p + 2;
                    out.push(Tok { k: K::BlockComment, s, e: i });
                }
                None => return (out, Some(LexFault::UnterminatedBlockComment(s))),
            }
        } else if c == b'"' {
            i += 1;
            loop {
                if i >= n {
                    return (out, Some(LexFault::UnterminatedString(s)));
                }
                if b[i] == b'\\' {
                    if i + 1 >= n {
                        return (out, Some(LexFault::UnterminatedString(s)));
                    }
                    i += 2;
                    continue;
                }
                if b[i] == b'"' {
                    i += 1;
                    break;
                }
                i += 1;
            }
            out.push(Tok { k: K::Str, s, e: i });
        } else if c == b'\\' {
            i += 1;
            while i < n && !is_ws(b[i]) {
                i += 1;
            }
            if i == s + 1 {
                if strict {
                    return (out, Some(LexFault::LoneBackslash(s)));
                }
                out.push(Tok { k: K::Punct, s, e: i });
            } else {
                out.push(Tok { k: K::EscId, s, e: i });
            }
        } else if c == b'`' {
            i += 1;
            while i < n && is_word(b[i]) {
                i += 1;
            }
            out.push(Tok { k: if i > s + 1 { K::Tick } else { K::Punct }, s, e: i });
        } else if is_word(c) {
            while i < n && is_word(b[i]) {
                i += 1;
            }
            out.push(Tok { k: K::Word, s, e: i });
        } else {
            // one (possibly multi-byte) character
            i += 1;
            while i < n && (b[i] & 0xC0) == 0x80 {
                i += 1;
            }
            out.push(Tok { k: K::Punct, s, e: i });
        }
    }
    (out, None)
}

/// non-trivia token texts
pub fn tokens<'a>(text: &'a str) -> Vec<&'a str> {
    let (t, _) = lex(text);
    t.iter()
        .filter(|t| !matches!(t.k, K::Ws | K::LineComment | K::BlockComment))
        .map(|t| &text[t.s..t.e])
        .collect()
}

pub fn is_trivia(k: K) -> bool {
    matches!(k, K::Ws | K::LineComment | K::BlockComment)
}
