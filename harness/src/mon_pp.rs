//! Monitor for the preprocessor properties: run a G-PP program through the real
//! preprocessor and compare with the reference semantics (C04, C05, C10, C11).

use crate::api::*;
use crate::gen_pp::*;
use crate::lexer;
use crate::util::*;
use std::path::{Path, PathBuf};
use sv_parser::Error;

#[derive(Clone, Debug, PartialEq, Eq)]
pub enum ObsErr {
    Known(ErrExp),
    Other(usize, String),
}

pub fn classify_error(e: &Error) -> ObsErr {
    let mut wraps = 0;
    let mut cur = e;
    while let Error::Include { source } = cur {
        wraps += 1;
        cur = &**source;
    }
    let kind = match cur {
        Error::DefineNotFound(s) => ErrKind::DefineNotFound(s.clone()),
        Error::DefineArgNotFound(s) => ErrKind::DefineArgNotFound(s.clone()),
        Error::DefineNoArgs(s) => ErrKind::DefineNoArgs(s.clone()),
        Error::File { path, .. } => ErrKind::File(path.to_string_lossy().to_string()),
        Error::ExceedRecursiveLimit => ErrKind::Recursion,
        other => return ObsErr::Other(wraps, format!("{:?}", other)),
    };
    ObsErr::Known(ErrExp { wraps, kind })
}

pub struct Setup {
    pub prog: Prog,
    pub rendered: Rendered,
    /// directory holding the files (None: single file passed as string)
    pub dir: Option<PathBuf>,
    pub cfg: Cfg,
    pub top: usize,
}

impl Setup {
    pub fn witness(&self, detail: &str) -> String {
        Obj::new()
            .raw(
                "files",
                &json_arr(self.rendered.files.iter().map(|(n, t)| Obj::new().s("name", n).s("text", t).done())),
            )
            .s("predefs", &format!("{:?}", self.prog.predefs))
            .raw("config", &self.cfg.json())
            .s("detail", detail)
            .done()
    }
    pub fn top_path(&self) -> PathBuf {
        match &self.dir {
            Some(d) => d.join(&self.rendered.files[self.top].0),
            None => PathBuf::from(&self.rendered.files[self.top].0),
        }
    }
    pub fn write_files(&self) {
        if let Some(d) = &self.dir {
            let _ = std::fs::create_dir_all(d);
            for (n, t) in &self.rendered.files {
                let p = d.join(n);
                if let Some(pp) = p.parent() {
                    let _ = std::fs::create_dir_all(pp);
                }
                let _ = std::fs::write(p, t);
            }
        }
    }
    pub fn cfg_with_predefs(prog: &Prog, mut cfg: Cfg) -> Cfg {
        for (k, v) in &prog.predefs {
            cfg.defines.push((
                k.clone(),
                match v {
                    PreDef::Bare => None,
                    PreDef::NoBody => Some((vec![], None)),
                    PreDef::Body(b) => Some((vec![], Some(b.clone()))),
                },
            ));
        }
        cfg
    }
    pub fn run(&self) -> Result<Result<(sv_parser::PreprocessedText, Defs), Error>, LibPanic> {
        match &self.dir {
            Some(_) => pp_file(&self.top_path(), &self.cfg),
            None => pp_str(&self.rendered.files[self.top].1, Path::new(&self.rendered.files[self.top].0), &self.cfg),
        }
    }
    pub fn expect(&self, q: Quirks) -> Expect {
        let dir = self.dir.clone();
        let top_name = self.rendered.files[self.top].0.clone();
        let f = move |name: &str| -> String {
            match &dir {
                Some(d) => d.join(name).to_string_lossy().to_string(),
                None => {
                    let _ = &top_name;
                    name.to_string()
                }
            }
        };
        Eval::new(&self.prog, &self.rendered, q, Box::new(f)).run(self.top)
    }
}

#[derive(Debug, Clone)]
pub enum Diff {
    None,
    Error(String),
    Tokens(String),
    DeadPayload(String),
    TableKeys(String),
    TableDetail(String),
}

fn table_expected(e: &Expect, crlf: bool) -> Vec<(String, Option<(Vec<(String, Option<String>)>, Option<String>)>)> {
    let mut v = Vec::new();
    for (k, t) in &e.table {
        if k.starts_with("SV_COV_") {
            continue;
        }
        v.push((
            k.clone(),
            match t {
                TableEntry::Bare => None,
                TableEntry::ExtNoBody => Some((vec![], None)),
                TableEntry::Ext(b) => Some((vec![], Some(b.clone()))),
                TableEntry::Def(m, _, _) => {
                    let formals = m.formals.clone().unwrap_or_default();
                    let body = m.body.as_ref().map(|_| {
                        let d = render_define(m);
                        // text after "`define NAME[(formals)]"
                        let head = if m.formals.is_some() { d.find(')').map(|i| i + 1).unwrap_or(0) } else { "`define ".len() + m.name.len() };
                        // a default text may contain ')': find the end of the formal list by construction
                        let head = if m.formals.is_some() { formal_list_end(&d, m) } else { head };
                        let b = d[head..].trim().to_string();
                        if crlf {
                            b.replace('\n', "\r\n")
                        } else {
                            b
                        }
                    });
                    Some((formals, body))
                }
            },
        ));
    }
    v
}

fn formal_list_end(d: &str, m: &MacroDef) -> usize {
    // "`define NAME(" + formals joined by ", " + ")"
    let mut n = "`define ".len() + m.name.len() + 1;
    let fs = m.formals.as_ref().unwrap();
    for (i, (f, dflt)) in fs.iter().enumerate() {
        if i > 0 {
            n += 2;
        }
        n += f.len();
        if let Some(x) = dflt {
            n += 3 + x.len();
        }
    }
    let _ = d;
    n + 1
}

pub fn compare(exp: &Expect, obs: &Result<(String, Defs), ObsErr>) -> Diff {
    compare_crlf(exp, obs, false)
}

pub fn compare_crlf(exp: &Expect, obs: &Result<(String, Defs), ObsErr>, crlf: bool) -> Diff {
    match (&exp.error, obs) {
        (Some(e), Err(ObsErr::Known(o))) => {
            if e == o {
                Diff::None
            } else {
                Diff::Error(format!("expected error {:?}, observed {:?}", e, o))
            }
        }
        (Some(e), Err(ObsErr::Other(w, s))) => Diff::Error(format!("expected error {:?}, observed {} Include wrapper(s) around {}", e, w, s)),
        (Some(e), Ok((t, _))) => Diff::Error(format!("expected error {:?}, observed Ok with text {:?}", e, clip(t, 200))),
        (None, Err(o)) => Diff::Error(format!("expected success, observed error {:?}", o)),
        (None, Ok((text, defs))) => {
            let got: Vec<&str> = lexer::tokens(text);
            // no dead payload anywhere
            for d in &exp.dead_payload {
                // a file included twice can have a branch dead in one inclusion and live in the other
                if exp.tokens.iter().any(|t| t == d) {
                    continue;
                }
                if got.iter().any(|g| g == d) {
                    return Diff::DeadPayload(format!("token {} of a discarded branch appears in the output", d));
                }
            }
            if got.len() != exp.tokens.len() || got.iter().zip(exp.tokens.iter()).any(|(a, b)| a != b) {
                let k = got.iter().zip(exp.tokens.iter()).position(|(a, b)| a != b).unwrap_or(got.len().min(exp.tokens.len()));
                let lo = k.saturating_sub(3);
                return Diff::Tokens(format!(
                    "token sequences differ at #{}: observed {:?} expected {:?} (lengths {} / {})",
                    k,
                    &got[lo..(k + 4).min(got.len())],
                    &exp.tokens[lo..(k + 4).min(exp.tokens.len())],
                    got.len(),
                    exp.tokens.len()
                ));
            }
            let et = table_expected(exp, crlf);
            let ot: Vec<_> = canon_defines(defs, false, true);
            let ek: Vec<&String> = et.iter().map(|x| &x.0).collect();
            let ok: Vec<&String> = ot.iter().map(|x| &x.0).collect();
            if ek != ok {
                return Diff::TableKeys(format!("define table keys differ: observed {:?} expected {:?}", ok, ek));
            }
            for ((k, e), (_, o)) in et.iter().zip(ot.iter()) {
                let on = o.as_ref().map(|d| {
                    (
                        d.args.iter().map(|(a, b)| (a.trim().to_string(), b.as_ref().map(|x| x.trim().to_string()))).collect::<Vec<_>>(),
                        d.text.as_ref().map(|t| t.trim().to_string()),
                    )
                });
                let en = e.as_ref().map(|(a, b)| (a.iter().map(|(x, y)| (x.clone(), y.as_ref().map(|z| z.trim().to_string()))).collect::<Vec<_>>(), b.clone()));
                if on != en {
                    return Diff::TableDetail(format!("define {}: observed {:?} expected {:?}", k, on, en));
                }
            }
            Diff::None
        }
    }
}

pub fn observe(r: Result<(sv_parser::PreprocessedText, Defs), Error>) -> Result<(String, Defs), ObsErr> {
    match r {
        Ok((t, d)) => Ok((t.text().to_string(), d)),
        Err(e) => Err(classify_error(&e)),
    }
}
