//! C02 monitor: collect (kind, identifier) facts from a tree.

use crate::gen_sv::Fact;
use sv_parser::*;

fn ident_text<'a>(n: RefNode<'a>, text: &'a str) -> Option<&'a str> {
    for x in n {
        match x {
            RefNode::SimpleIdentifier(i) => return text.get(i.nodes.0.offset..i.nodes.0.offset + i.nodes.0.len),
            RefNode::EscapedIdentifier(i) => return text.get(i.nodes.0.offset..i.nodes.0.offset + i.nodes.0.len),
            _ => {}
        }
    }
    None
}

fn first_of<'a>(n: RefNode<'a>, pred: &dyn Fn(&RefNode<'a>) -> bool) -> Option<RefNode<'a>> {
    for x in n {
        if pred(&x) {
            return Some(x);
        }
    }
    None
}

pub const TRACKED: &[&str] = &[
    "ModuleDeclarationAnsi",
    "ModuleDeclarationNonansi",
    "ModuleDeclarationWildcard",
    "InterfaceDeclarationWildcard",
    "InterfaceDeclarationAnsi",
    "InterfaceDeclarationNonansi",
    "ProgramDeclarationAnsi",
    "ProgramDeclarationNonansi",
    "PackageDeclaration",
    "ClassDeclaration",
    "FunctionDeclaration",
    "TaskDeclaration",
    "ModuleInstantiation",
    "InterfaceInstantiation",
    "ProgramInstantiation",
    "UdpInstantiation",
    "CheckerInstantiation",
    "PropertyDeclaration",
    "SequenceDeclaration",
    "ClockingDeclaration",
    "ConstraintDeclaration",
    "HierarchicalInstance",
    "AnsiPortDeclaration",
    "InputDeclaration",
    "OutputDeclaration",
    "InoutDeclaration",
    "ParamAssignment",
    "NetDeclAssignment",
    "VariableDeclAssignment",
    "TypeDeclaration",
    "TypeAssignment",
    "GenvarIdentifier",
    "NetAssignment",
    "BlockIdentifier",
    "GenerateBlockIdentifier",
    "TfPortItem",
    "TfPortDeclaration",
    "EnumNameDeclaration",
    "ModportItem",
    "PackageImportDeclaration",
    "LoopGenerateConstruct",
    "IfGenerateConstruct",
    "CaseGenerateConstruct",
];

/// Observed facts of the tracked kinds, in tree order.
pub fn observe<'a, I: IntoIterator<Item = RefNode<'a>>>(it: I, text: &'a str) -> Vec<Fact> {
    let mut out = Vec::new();
    let mut push = |kind: &'static str, name: Option<&str>| out.push(Fact { kind, name: name.unwrap_or("<none>").to_string() });
    for n in it {
        match &n {
            RefNode::ModuleDeclarationAnsi(_) => push("ModuleDeclarationAnsi", sub_ident(&n, text, |x| matches!(x, RefNode::ModuleIdentifier(_)))),
            RefNode::ModuleDeclarationNonansi(_) => push("ModuleDeclarationNonansi", sub_ident(&n, text, |x| matches!(x, RefNode::ModuleIdentifier(_)))),
            RefNode::ModuleDeclarationWildcard(_) => push("ModuleDeclarationWildcard", sub_ident(&n, text, |x| matches!(x, RefNode::ModuleIdentifier(_)))),
            RefNode::InterfaceDeclarationWildcard(_) => {
                push("InterfaceDeclarationWildcard", sub_ident(&n, text, |x| matches!(x, RefNode::InterfaceIdentifier(_))))
            }
            RefNode::InterfaceDeclarationAnsi(_) => push("InterfaceDeclarationAnsi", sub_ident(&n, text, |x| matches!(x, RefNode::InterfaceIdentifier(_)))),
            RefNode::InterfaceDeclarationNonansi(_) => {
                push("InterfaceDeclarationNonansi", sub_ident(&n, text, |x| matches!(x, RefNode::InterfaceIdentifier(_))))
            }
            RefNode::ProgramDeclarationAnsi(_) => push("ProgramDeclarationAnsi", sub_ident(&n, text, |x| matches!(x, RefNode::ProgramIdentifier(_)))),
            RefNode::ProgramDeclarationNonansi(_) => push("ProgramDeclarationNonansi", sub_ident(&n, text, |x| matches!(x, RefNode::ProgramIdentifier(_)))),
            RefNode::PackageDeclaration(_) => push("PackageDeclaration", sub_ident(&n, text, |x| matches!(x, RefNode::PackageIdentifier(_)))),
            RefNode::ClassDeclaration(_) => push("ClassDeclaration", sub_ident(&n, text, |x| matches!(x, RefNode::ClassIdentifier(_)))),
            RefNode::FunctionDeclaration(_) => push("FunctionDeclaration", sub_ident(&n, text, |x| matches!(x, RefNode::FunctionIdentifier(_)))),
            RefNode::TaskDeclaration(_) => push("TaskDeclaration", sub_ident(&n, text, |x| matches!(x, RefNode::TaskIdentifier(_)))),
            RefNode::ModuleInstantiation(_) => push("ModuleInstantiation", sub_ident(&n, text, |x| matches!(x, RefNode::ModuleIdentifier(_)))),
            RefNode::InterfaceInstantiation(_) => push("InterfaceInstantiation", sub_ident(&n, text, |x| matches!(x, RefNode::InterfaceIdentifier(_)))),
            RefNode::ProgramInstantiation(_) => push("ProgramInstantiation", sub_ident(&n, text, |x| matches!(x, RefNode::ProgramIdentifier(_)))),
            RefNode::UdpInstantiation(_) => push("UdpInstantiation", sub_ident(&n, text, |x| matches!(x, RefNode::UdpIdentifier(_)))),
            RefNode::PropertyDeclaration(_) => push("PropertyDeclaration", sub_ident(&n, text, |x| matches!(x, RefNode::PropertyIdentifier(_)))),
            RefNode::SequenceDeclaration(_) => push("SequenceDeclaration", sub_ident(&n, text, |x| matches!(x, RefNode::SequenceIdentifier(_)))),
            RefNode::ClockingDeclaration(_) => push("ClockingDeclaration", sub_ident(&n, text, |x| matches!(x, RefNode::ClockingIdentifier(_)))),
            RefNode::ConstraintDeclaration(_) => push("ConstraintDeclaration", sub_ident(&n, text, |x| matches!(x, RefNode::ConstraintIdentifier(_)))),
            RefNode::CheckerInstantiation(_) => push("CheckerInstantiation", sub_ident(&n, text, |x| matches!(x, RefNode::CheckerIdentifier(_)))),
            RefNode::HierarchicalInstance(_) => push("HierarchicalInstance", sub_ident(&n, text, |x| matches!(x, RefNode::InstanceIdentifier(_)))),
            RefNode::AnsiPortDeclaration(_) => push("AnsiPortDeclaration", sub_ident(&n, text, |x| matches!(x, RefNode::PortIdentifier(_)))),
            RefNode::InputDeclaration(_) => {
                for nm in sub_idents(&n, text, |x| matches!(x, RefNode::PortIdentifier(_) | RefNode::VariableIdentifier(_))) {
                    push("InputDeclaration", Some(nm));
                }
            }
            RefNode::OutputDeclaration(_) => {
                for nm in sub_idents(&n, text, |x| matches!(x, RefNode::PortIdentifier(_) | RefNode::VariableIdentifier(_))) {
                    push("OutputDeclaration", Some(nm));
                }
            }
            RefNode::InoutDeclaration(_) => {
                for nm in sub_idents(&n, text, |x| matches!(x, RefNode::PortIdentifier(_) | RefNode::VariableIdentifier(_))) {
                    push("InoutDeclaration", Some(nm));
                }
            }
            RefNode::ParamAssignment(_) => push("ParamAssignment", sub_ident(&n, text, |x| matches!(x, RefNode::ParameterIdentifier(_)))),
            RefNode::NetDeclAssignment(_) => push("NetDeclAssignment", sub_ident(&n, text, |x| matches!(x, RefNode::NetIdentifier(_)))),
            RefNode::VariableDeclAssignment(_) => push("VariableDeclAssignment", sub_ident(&n, text, |x| matches!(x, RefNode::VariableIdentifier(_)))),
            RefNode::TypeDeclaration(_) => {
                // the declared name is the last TypeIdentifier directly of the declaration; generated typedefs use built-in types only
                push("TypeDeclaration", sub_ident(&n, text, |x| matches!(x, RefNode::TypeIdentifier(_))))
            }
            RefNode::TypeAssignment(_) => push("TypeAssignment", sub_ident(&n, text, |x| matches!(x, RefNode::TypeIdentifier(_)))),
            RefNode::GenvarIdentifier(_) => {
                // only in declarations: handled below via GenvarDeclaration
            }
            RefNode::GenvarDeclaration(_) => {
                for nm in sub_idents(&n, text, |x| matches!(x, RefNode::GenvarIdentifier(_))) {
                    push("GenvarIdentifier", Some(nm));
                }
            }
            RefNode::NetAssignment(_) => push("NetAssignment", ident_text(n.clone(), text)),
            RefNode::BlockIdentifier(_) => push("BlockIdentifier", ident_text(n.clone(), text)),
            RefNode::GenerateBlockIdentifier(_) => push("GenerateBlockIdentifier", ident_text(n.clone(), text)),
            RefNode::TfPortItem(_) => {
                // every part of tf_port_item is optional in Annex A; an item without a name carries no fact
                if let Some(nm) = sub_ident(&n, text, |x| matches!(x, RefNode::PortIdentifier(_))) {
                    push("TfPortItem", Some(nm));
                }
            }
            RefNode::InterfacePortDeclaration(_) => {
                for nm in sub_idents(&n, text, |x| matches!(x, RefNode::InterfaceIdentifier(_))).into_iter().skip(1) {
                    push("InterfacePortDeclaration", Some(nm));
                }
            }
            RefNode::TfPortDeclaration(_) => {
                for nm in sub_idents(&n, text, |x| matches!(x, RefNode::PortIdentifier(_))) {
                    push("TfPortDeclaration", Some(nm));
                }
            }
            RefNode::EnumNameDeclaration(_) => push("EnumNameDeclaration", sub_ident(&n, text, |x| matches!(x, RefNode::EnumIdentifier(_)))),
            RefNode::ModportItem(_) => push("ModportItem", sub_ident(&n, text, |x| matches!(x, RefNode::ModportIdentifier(_)))),
            RefNode::PackageImportDeclaration(_) => push("PackageImportDeclaration", sub_ident(&n, text, |x| matches!(x, RefNode::PackageIdentifier(_)))),
            RefNode::LoopGenerateConstruct(_) => push("LoopGenerateConstruct", Some("")),
            RefNode::IfGenerateConstruct(_) => push("IfGenerateConstruct", Some("")),
            RefNode::CaseGenerateConstruct(_) => push("CaseGenerateConstruct", Some("")),
            _ => {}
        }
    }
    out
}

fn sub_ident<'a>(n: &RefNode<'a>, text: &'a str, pred: impl Fn(&RefNode<'a>) -> bool) -> Option<&'a str> {
    first_of(n.clone(), &pred).and_then(|x| ident_text(x, text))
}

fn sub_idents<'a>(n: &RefNode<'a>, text: &'a str, pred: impl Fn(&RefNode<'a>) -> bool) -> Vec<&'a str> {
    let mut v = Vec::new();
    for x in n.clone() {
        if pred(&x) {
            if let Some(t) = ident_text(x, text) {
                v.push(t);
            }
        }
    }
    v
}
