//! Mutators: trivia re-layout, token-level and byte-level mutation.

use crate::lexer::{self, Tok, K};
use crate::util::Rng;

#[derive(Clone, Copy, Debug)]
pub struct Layout {
    /// allow neutral, argument-closed compiler directives inside runs
    pub directives: bool,
    /// allow `define/`undef pieces
    pub defines: bool,
    /// allow non-ASCII in comments
    pub non_ascii: bool,
    /// allow form feeds
    pub form_feed: bool,
    pub comments: bool,
}

pub const PLAIN: Layout = Layout { directives: false, defines: false, non_ascii: true, form_feed: false, comments: true };

const NEUTRAL_DIRECTIVES: &[&str] = &[
    "`celldefine",
    "`endcelldefine",
    "`default_nettype wire",
    "`default_nettype none",
    "`default_nettype tri0",
    "`timescale 1ns/1ps",
    "`timescale 10 us / 100 ns",
    "`unconnected_drive pull0",
    "`unconnected_drive pull1",
    "`nounconnected_drive",
    "`line 7 \"f.v\" 0",
    "`line 1 \"a/b.sv\" 2",
];

/// A random non-empty trivia run.  `after`: the token before the run (for the
/// boundary rules of DESIGN C12); `uid` makes `define names fresh.
pub fn trivia_run(rng: &mut Rng, lay: &Layout, after: Option<(K, &str)>, uid: &mut u32) -> String {
    let mut s = String::new();
    let needs_blank_first = match after {
        Some((K::EscId, _)) => true,
        Some((_, t)) => t.ends_with('/') || t.ends_with('`'),
        None => false,
    };
    if needs_blank_first {
        s.push_str(*rng.pick(&[" ", "\t", "\n", " \n"]));
    }
    // K1-safe placement: no directive run right after a string literal / escaped identifier
    let after_literal = matches!(after, Some((K::EscId, _)) | Some((K::Str, _)));
    let lay = &Layout { directives: lay.directives && !after_literal, defines: lay.defines && !after_literal, ..*lay };
    let n = rng.range(if s.is_empty() { 1 } else { 0 }, 3);
    for _ in 0..n {
        let k = rng.below(100);
        if k < 40 {
            s.push_str(*rng.pick(&[" ", "  ", "\t", " \t "]));
        } else if k < 60 {
            s.push_str(*rng.pick(&["\n", "\r\n", "\n\n", "\n  ", "\r\n\t"]));
        } else if k < 62 && lay.form_feed {
            s.push('\u{c}');
        } else if k < 75 && lay.comments {
            if lay.non_ascii && rng.chance(1, 3) {
                s.push_str(*rng.pick(&["/* é∑ */", "/*日本*/", "/* “q” */"]));
            } else {
                // the last ones: bodies that begin with a slash or play with the delimiters (the opener's star is not
                // the terminator's star; an opener inside a comment opens nothing)
                s.push_str(*rng.pick(&[
                    "/* c */", "/**/", "/* \"q */", "/* // */", "/* a\n b */", "/***/", "/*/ x /**/", "/*//*/", "/*/*/", "/*/ */", "/* /* */", "/** / **/",
                    "/*\\*/", "/*`x*/",
                ]));
            }
        } else if k < 85 && lay.comments {
            if lay.non_ascii && rng.chance(1, 3) {
                s.push_str(*rng.pick(&["// ünï\n", "// → x\r\n"]));
            } else {
                s.push_str(*rng.pick(&["// c\n", "//\n", "// \"q /* x\n", "// c\r\n", "//*/\n", "///* x\n", "// `x\n"]));
            }
        } else if k < 95 && lay.directives {
            // every directive piece is followed by a blank or newline inside the run
            if !s.is_empty() && !s.ends_with(|c: char| c == ' ' || c == '\n' || c == '\t') {
                s.push(' ');
            }
            s.push_str(*rng.pick(NEUTRAL_DIRECTIVES));
            s.push_str(*rng.pick(&[" ", "\n", " \n", "\t"]));
        } else if k < 100 && lay.defines {
            if !s.is_empty() && !s.ends_with(|c: char| c == ' ' || c == '\n' || c == '\t') {
                s.push(' ');
            }
            *uid += 1;
            if rng.chance(2, 3) {
                // the body ends at the first newline that no backslash directly precedes (22.5.1): a backslash
                // followed by blanks is ordinary body text, backslash-newline continues the body
                match rng.below(8) {
                    0 => s.push_str(&format!("`define ZQ{} zq{} \\ \n", uid, uid)),
                    1 => s.push_str(&format!("`define ZQ{} zq{} \\\t \n", uid, uid)),
                    2 => s.push_str(&format!("`define ZQ{} zq{} \\\n + 1\n", uid, uid)),
                    3 => s.push_str(&format!("`define ZQ{}(a, b = 2) a + b \\  \n", uid)),
                    _ => s.push_str(&format!("`define ZQ{} zq{} + 1\n", uid, uid)),
                }
            } else {
                s.push_str(&format!("`undef ZQ{}{}", uid, *rng.pick(&[" ", "\n"])));
            }
        } else {
            s.push(' ');
        }
    }
    if s.is_empty() {
        s.push(' ');
    }
    s
}

/// Replace every maximal trivia run between two tokens by a random run.  Leading and
/// trailing trivia are replaced too (possibly from empty).  Returns None when the text
/// has a lexical fault or contains a backtick (directive lines are layout sensitive).
pub fn relayout(text: &str, rng: &mut Rng, lay: &Layout) -> Option<String> {
    let (toks, fault) = lexer::lex_mode(text, true);
    if fault.is_some() {
        return None;
    }
    if toks.iter().any(|t| t.k == K::Tick || (t.k == K::Punct && &text[t.s..t.e] == "`")) {
        return None;
    }
    let mut out = String::with_capacity(text.len() * 2);
    let mut uid = 0u32;
    let mut i = 0;
    let mut prev: Option<Tok> = None;
    while i < toks.len() {
        if lexer::is_trivia(toks[i].k) {
            let mut j = i;
            while j < toks.len() && lexer::is_trivia(toks[j].k) {
                j += 1;
            }
            let after = prev.map(|p| (p.k, &text[p.s..p.e]));
            out.push_str(&trivia_run(rng, lay, after, &mut uid));
            i = j;
        } else {
            out.push_str(&text[toks[i].s..toks[i].e]);
            prev = Some(toks[i]);
            i += 1;
        }
    }
    Some(out)
}

/// Token-level mutation of a program (to obtain mostly-rejected inputs that still look like SV).
pub fn token_mutate(text: &str, rng: &mut Rng) -> String {
    let (toks, _) = lexer::lex(text);
    let idx: Vec<usize> = (0..toks.len()).filter(|&i| !lexer::is_trivia(toks[i].k)).collect();
    if idx.is_empty() {
        return text.to_string();
    }
    let t = toks[*rng.pick(&idx)];
    let u = toks[*rng.pick(&idx)];
    let mut s = String::new();
    match rng.below(6) {
        0 => {
            // delete token
            s.push_str(&text[..t.s]);
            s.push_str(&text[t.e..]);
        }
        1 => {
            // duplicate token
            s.push_str(&text[..t.e]);
            s.push(' ');
            s.push_str(&text[t.s..]);
        }
        2 => {
            // replace by another token of the program
            s.push_str(&text[..t.s]);
            s.push_str(&text[u.s..u.e]);
            if u.k == K::EscId {
                s.push(' ');
            }
            s.push_str(&text[t.e..]);
        }
        3 => {
            // replace by a keyword / punctuation
            s.push_str(&text[..t.s]);
            s.push_str(*rng.pick(&["end", "begin", "module", "endmodule", ";", ")", "(", "=", "assign", "wire", "logic", "'", "#", "@", "::", "[", "}"]));
            s.push(' ');
            s.push_str(&text[t.e..]);
        }
        4 => {
            // truncate at token
            s.push_str(&text[..t.s]);
        }
        _ => {
            // swap two tokens
            let (a, b) = if t.s <= u.s { (t, u) } else { (u, t) };
            if a.e <= b.s {
                s.push_str(&text[..a.s]);
                s.push_str(&text[b.s..b.e]);
                if b.k == K::EscId {
                    s.push(' ');
                }
                s.push_str(&text[a.e..b.s]);
                s.push_str(&text[a.s..a.e]);
                if a.k == K::EscId {
                    s.push(' ');
                }
                s.push_str(&text[b.e..]);
            } else {
                s.push_str(text);
            }
        }
    }
    s
}

pub const HOSTILE: &[&str] = &[
    "`", "``", "`\"", "`\\`\"", "\\", "\\\n", "\"", "/*", "*/", "//", "(", ")", "[", "]", "{", "}", "'", "'{", "#", "##", "@", "$", "`define", "`define X",
    "`define X(", "`define X(a", "`define X(a=", "`undef", "`ifdef", "`ifndef X", "`elsif", "`else", "`endif", "`include", "`include \"", "`include <", "`X(",
    "`__LINE__", "`__FILE__", "`begin_keywords \"1364-2001\"", "`end_keywords", "`pragma", "`line", "`timescale", "`resetall", "`undefineall", "é", "\u{0}",
    "\u{1}", "\r", "\u{c}", "\u{b}", "\u{feff}", "\u{2028}", "1'", "'h", "8'hx", "1e", "1.", ".1", "1step", "::", "->", "->>", "|->", "|=>", "<=", "===", "!=?",
    "(*", "*)", "begin", "end", "module", "endmodule", "function", "endfunction", "case", "endcase", "fork", "join", "generate", "interface", "class", "package",
    "library", "include", "config", "endconfig", "-incdir", "\\esc ", "\\`x ", "\"a\\", "\"`x\"", "\"\\\n\"",
    // usages of names that the random configurations / the soups themselves define, also as `include targets
    "`A", "`X", "`M", "`A0", "`é", "`include `A\n", "`include `X\n", "`include `M\n", "`include `M x\n", "`define M\n", "`define M x\n", "`define M é\n",
    "`define M \"\n", "`define M \"\"\n", "`define M(a) a\n", "`define X(a, b = 1) a b\n", "`M()", "`M(,)", "`X(1,)", "`X()", "`undef M\n", "`ifdef M\n",
    "`ifndef X\n", "`elsif A\n", "`else\n", "`endif\n", "`__LINE__", "`\"", "``",
];

/// Byte/chunk-level mutation (result is valid UTF-8: operates on char boundaries).
pub fn byte_mutate(text: &str, rng: &mut Rng) -> String {
    let mut cuts: Vec<usize> = text.char_indices().map(|(i, _)| i).collect();
    cuts.push(text.len());
    let pick = |rng: &mut Rng| cuts[rng.below(cuts.len())];
    let mut s = String::new();
    match rng.below(6) {
        0 => s.push_str(&text[..pick(rng)]),
        1 => {
            let p = pick(rng);
            s.push_str(&text[..p]);
            s.push_str(*rng.pick(HOSTILE));
            s.push_str(&text[p..]);
        }
        2 => {
            let (mut a, mut b) = (pick(rng), pick(rng));
            if a > b {
                std::mem::swap(&mut a, &mut b);
            }
            s.push_str(&text[..a]);
            s.push_str(&text[b..]);
        }
        3 => {
            let (mut a, mut b) = (pick(rng), pick(rng));
            if a > b {
                std::mem::swap(&mut a, &mut b);
            }
            let b = b.min(a + 200);
            let mut b2 = b;
            while !text.is_char_boundary(b2) {
                b2 -= 1;
            }
            s.push_str(&text[..b2]);
            s.push_str(&text[a..b2]);
            s.push_str(&text[b2..]);
        }
        4 => {
            // overwrite one char
            let p = pick(rng);
            s.push_str(&text[..p]);
            let rest = &text[p..];
            let mut it = rest.chars();
            it.next();
            s.push_str(*rng.pick(&["`", "\"", "\\", "/", "*", "(", ")", "x", "0", " ", "\n", "'", "é"]));
            s.push_str(it.as_str());
        }
        _ => {
            let p = pick(rng);
            s.push_str(&text[p..]);
        }
    }
    s
}

/// An edit that keeps the byte length (a buffer or file overwritten in place): one character of a word
/// token (identifier, keyword, number) is replaced by another word character.  None if there is no word.
pub fn same_length_edit(text: &str, rng: &mut Rng) -> Option<String> {
    let (toks, _) = lexer::lex(text);
    let words: Vec<Tok> = toks.iter().filter(|t| t.k == K::Word).cloned().collect();
    if words.is_empty() {
        return None;
    }
    let t = *rng.pick(&words);
    let q = t.s + rng.below(t.e - t.s);
    let old = text.as_bytes()[q];
    let new = loop {
        let c = *rng.pick(&[b'a', b'e', b'q', b'x', b'z', b'_', b'0', b'1', b'7']);
        if c != old && !(q == t.s && c.is_ascii_digit() && !old.is_ascii_digit()) {
            break c;
        }
    };
    let mut b = text.as_bytes().to_vec();
    b[q] = new;
    String::from_utf8(b).ok()
}
