//! Small dependency-free helpers: PRNG, hashing, JSON writer.

use std::fmt::Write as _;

// ----------------------------------------------------------------------------

#[derive(Clone)]
pub struct Rng(pub u64);

pub fn splitmix(x: &mut u64) -> u64 {
    *x = x.wrapping_add(0x9E37_79B9_7F4A_7C15);
    let mut z = *x;
    z = (z ^ (z >> 30)).wrapping_mul(0xBF58_476D_1CE4_E5B9);
    z = (z ^ (z >> 27)).wrapping_mul(0x94D0_49BB_1331_11EB);
    z ^ (z >> 31)
}

impl Rng {
    /// stream derived from (seed, a, b, c)
    pub fn derive(seed: u64, a: u64, b: u64, c: u64) -> Rng {
        let mut s = seed ^ 0xA076_1D64_78BD_642F;
        let mut h = splitmix(&mut s);
        for v in [a, b, c] {
            s = h ^ v.wrapping_mul(0xD6E8_FEB8_6659_FD93);
            h = splitmix(&mut s);
        }
        Rng(h)
    }
    pub fn next(&mut self) -> u64 {
        splitmix(&mut self.0)
    }
    pub fn below(&mut self, n: usize) -> usize {
        if n == 0 {
            0
        } else {
            (self.next() % (n as u64)) as usize
        }
    }
    /// inclusive range
    pub fn range(&mut self, lo: usize, hi: usize) -> usize {
        lo + self.below(hi - lo + 1)
    }
    pub fn chance(&mut self, num: usize, den: usize) -> bool {
        self.below(den) < num
    }
    pub fn f(&mut self) -> f64 {
        (self.next() >> 11) as f64 / (1u64 << 53) as f64
    }
    pub fn pick<'a, T>(&mut self, v: &'a [T]) -> &'a T {
        &v[self.below(v.len())]
    }
    pub fn fork(&mut self) -> Rng {
        Rng(self.next())
    }
}

// ----------------------------------------------------------------------------

pub struct Fnv(pub u64);
impl Fnv {
    pub fn new() -> Fnv {
        Fnv(0xcbf2_9ce4_8422_2325)
    }
    pub fn bytes(&mut self, b: &[u8]) {
        for x in b {
            self.0 ^= *x as u64;
            self.0 = self.0.wrapping_mul(0x100_0000_01b3);
        }
    }
    pub fn u64(&mut self, v: u64) {
        self.bytes(&v.to_le_bytes());
    }
    pub fn str(&mut self, s: &str) {
        self.bytes(s.as_bytes());
        self.bytes(&[0xff]);
    }
}
pub fn hash_str(s: &str) -> u64 {
    let mut f = Fnv::new();
    f.str(s);
    f.0
}
pub fn hash_strs(v: &[&str]) -> u64 {
    let mut f = Fnv::new();
    for s in v {
        f.str(s);
    }
    f.0
}

// ----------------------------------------------------------------------------

pub fn json_str(s: &str) -> String {
    let mut o = String::with_capacity(s.len() + 2);
    o.push('"');
    for c in s.chars() {
        match c {
            '"' => o.push_str("\\\""),
            '\\' => o.push_str("\\\\"),
            '\n' => o.push_str("\\n"),
            '\r' => o.push_str("\\r"),
            '\t' => o.push_str("\\t"),
            c if (c as u32) < 0x20 => {
                let _ = write!(o, "\\u{:04x}", c as u32);
            }
            c => o.push(c),
        }
    }
    o.push('"');
    o
}

pub fn json_bytes(b: &[u8]) -> String {
    // lossless: valid UTF-8 as string, otherwise hex
    match std::str::from_utf8(b) {
        Ok(s) => json_str(s),
        Err(_) => {
            let mut o = String::from("{\"hex\":\"");
            for x in b {
                let _ = write!(o, "{:02x}", x);
            }
            o.push_str("\"}");
            o
        }
    }
}

/// Incremental JSON object writer.
pub struct Obj(String);
impl Obj {
    pub fn new() -> Obj {
        Obj(String::from("{"))
    }
    fn key(&mut self, k: &str) {
        if self.0.len() > 1 {
            self.0.push(',');
        }
        self.0.push_str(&json_str(k));
        self.0.push(':');
    }
    pub fn s(mut self, k: &str, v: &str) -> Obj {
        self.key(k);
        self.0.push_str(&json_str(v));
        self
    }
    pub fn n(mut self, k: &str, v: u64) -> Obj {
        self.key(k);
        let _ = write!(self.0, "{}", v);
        self
    }
    pub fn i(mut self, k: &str, v: i64) -> Obj {
        self.key(k);
        let _ = write!(self.0, "{}", v);
        self
    }
    pub fn b(mut self, k: &str, v: bool) -> Obj {
        self.key(k);
        self.0.push_str(if v { "true" } else { "false" });
        self
    }
    /// raw JSON value
    pub fn raw(mut self, k: &str, v: &str) -> Obj {
        self.key(k);
        self.0.push_str(v);
        self
    }
    pub fn done(mut self) -> String {
        self.0.push('}');
        self.0
    }
}

pub fn json_arr<I: IntoIterator<Item = String>>(it: I) -> String {
    let mut o = String::from("[");
    for (i, x) in it.into_iter().enumerate() {
        if i > 0 {
            o.push(',');
        }
        o.push_str(&x);
    }
    o.push(']');
    o
}

pub fn clip(s: &str, n: usize) -> String {
    if s.len() <= n {
        s.to_string()
    } else {
        let mut e = n;
        while !s.is_char_boundary(e) {
            e -= 1;
        }
        format!("{}…[{} bytes]", &s[..e], s.len())
    }
}
