//! Per-worker context: counters, observation sets, violations, JSONL output.

use crate::util::*;
use std::collections::{BTreeMap, BTreeSet, HashSet};
use std::io::Write;
use std::path::PathBuf;

#[derive(Clone, Copy, PartialEq, Eq, Debug)]
pub enum Tier {
    Quick,
    Thorough,
    /// tiny workloads for Miri / valgrind legs
    Tiny,
}

pub struct Ctx {
    pub prop: String,
    pub tier: Tier,
    pub seed: u64,
    pub shard: u64,
    pub nshards: u64,
    pub case: u64,
    pub counters: BTreeMap<String, u64>,
    pub sets: BTreeMap<String, BTreeSet<String>>,
    pub hashes: HashSet<u64>,
    pub samples: Vec<String>,
    pub max_samples: usize,
    pub viol_count: BTreeMap<String, u64>,
    pub tmpdir: PathBuf,
    pub out: Box<dyn Write + Send>,
    pub verbose: bool,
    pub kind_hashes: HashSet<u64>,
}

impl Ctx {
    /// record the node kinds of a tree (cheap: the name is rendered only for kinds not seen before)
    pub fn seen_kinds<'a, I: IntoIterator<Item = sv_parser::RefNode<'a>>>(&mut self, it: I) {
        use std::hash::{Hash, Hasher};
        for n in it {
            let mut h = std::collections::hash_map::DefaultHasher::new();
            std::mem::discriminant(&n).hash(&mut h);
            if self.kind_hashes.insert(h.finish()) {
                let name = n.to_string();
                self.sets.entry("node_kinds".to_string()).or_insert_with(BTreeSet::new).insert(name);
            }
        }
    }

    pub fn count(&mut self, k: &str, n: u64) {
        *self.counters.entry(k.to_string()).or_insert(0) += n;
    }
    pub fn max(&mut self, k: &str, n: u64) {
        let e = self.counters.entry(format!("max:{}", k)).or_insert(0);
        if n > *e {
            *e = n;
        }
    }
    pub fn seen(&mut self, set: &str, v: &str) {
        let s = self.sets.entry(set.to_string()).or_insert_with(BTreeSet::new);
        if s.len() < 5000 && !s.contains(v) {
            s.insert(v.to_string());
        }
    }
    /// record a distinct non-trivial case by hash
    pub fn nontrivial(&mut self, h: u64) {
        self.hashes.insert(h);
    }
    pub fn want_sample(&self) -> bool {
        self.samples.len() < self.max_samples
    }
    pub fn sample(&mut self, json: String) {
        if self.samples.len() < self.max_samples {
            self.samples.push(json);
        }
    }
    pub fn inconclusive(&mut self, reason: &str) {
        self.count(&format!("inconclusive:{}", reason), 1);
    }
    /// `kind`: short class of the violation (dedup key); `sig`: signature that
    /// the driver matches against known_findings.json; `witness`: JSON value.
    pub fn violation(&mut self, kind: &str, sig: &str, msg: &str, witness: String) {
        let n = {
            let n = self.viol_count.entry(format!("{}|{}", kind, sig)).or_insert(0);
            *n += 1;
            *n
        };
        self.count("violations_raw", 1);
        // full witness only for the first few of each (kind, sig)
        let full = n <= 3;
        let mut o = Obj::new()
            .s("t", "viol")
            .s("prop", &self.prop)
            .n("case", self.case)
            .n("shard", self.shard)
            .n("nshards", self.nshards)
            .n("seed", self.seed)
            .s("tier", match self.tier { Tier::Quick => "quick", Tier::Thorough => "thorough", Tier::Tiny => "tiny" })
            .s("kind", kind)
            .s("sig", sig)
            .s("msg", &clip(msg, 2000));
        if full {
            o = o.raw("witness", &witness);
        }
        let line = o.done();
        let _ = writeln!(self.out, "{}", line);
        let _ = self.out.flush();
        if self.verbose {
            eprintln!("VIOL[{}] {} sig={} {}", self.case, kind, sig, clip(msg, 300));
        }
    }
    pub fn begin_case(&mut self, case: u64) {
        self.case = case;
        let _ = writeln!(self.out, "{{\"t\":\"begin\",\"case\":{}}}", case);
        let _ = self.out.flush();
    }
    pub fn end_case(&mut self, case: u64) {
        let _ = writeln!(self.out, "{{\"t\":\"end\",\"case\":{}}}", case);
    }
    pub fn write_summary(&mut self) {
        let counters = {
            let mut o = Obj::new();
            for (k, v) in &self.counters {
                o = o.n(k, *v);
            }
            o.done()
        };
        let sets = {
            let mut o = Obj::new();
            for (k, v) in &self.sets {
                o = o.raw(k, &json_arr(v.iter().map(|x| json_str(x))));
            }
            o.done()
        };
        let hashes = json_arr(self.hashes.iter().map(|h| format!("\"{:016x}\"", h)));
        let samples = json_arr(self.samples.iter().cloned());
        let line = Obj::new()
            .s("t", "summary")
            .n("shard", self.shard)
            .raw("counters", &counters)
            .raw("sets", &sets)
            .raw("hashes", &hashes)
            .raw("samples", &samples)
            .done();
        let _ = writeln!(self.out, "{}", line);
        let _ = self.out.flush();
    }
}
