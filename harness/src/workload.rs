//! Shared input sources for the tree-side properties.

use crate::api::Gram;
use crate::corpus::LIB_SAMPLES;
use crate::mutate::{self, Layout};
use crate::util::Rng;
use crate::Env;

#[derive(Clone, Debug)]
pub struct SvInput {
    pub text: String,
    pub kind: &'static str,
    pub gram: Gram,
}

pub fn lib_text(rng: &mut Rng) -> String {
    let mut s = String::new();
    let n = rng.range(1, 4);
    for _ in 0..n {
        if rng.chance(1, 2) {
            s.push_str(*rng.pick(LIB_SAMPLES));
        } else {
            // generated library-map sentence; bare paths are always followed by a blank (DESIGN Appendix A)
            let id = format!("lib{}", rng.below(1000));
            match rng.below(4) {
                0 => {
                    s.push_str(&format!("library {} ", id));
                    let k = rng.range(1, 3);
                    for i in 0..k {
                        if i > 0 {
                            s.push_str(", ");
                        }
                        if rng.chance(1, 4) {
                            s.push_str(&format!("\"p{}.v\"", rng.below(100)));
                        } else if i + 1 == k && rng.chance(1, 4) {
                            // the implementation's file_path_spec ends only at `,` `;` or a blank: a newline / tab
                            // glued to the last path becomes part of the path token (still one leaf, still accepted)
                            s.push_str(&format!("dir{}/f{}.v{}", rng.below(10), rng.below(100), *rng.pick(&["\n", "\t", "\r\n", "\n\n"])));
                        } else {
                            s.push_str(&format!("dir{}/f{}.v ", rng.below(10), rng.below(100)));
                        }
                    }
                    if rng.chance(1, 3) && s.ends_with(' ') {
                        s.push_str(&format!(" -incdir inc{} ", rng.below(10)));
                    }
                    s.push_str(";");
                }
                1 => s.push_str(&format!("include m{}.map{};", rng.below(100), *rng.pick(&[" ", " ", "\n", "\t"]))),
                2 => s.push_str(&format!(
                    "config c{};\n design {}.top ;\n default liblist {} ;\nendconfig",
                    rng.below(100),
                    id,
                    id
                )),
                _ => s.push_str(";"),
            }
            s.push_str(*rng.pick(&["\n", " ", "\n// c\n", " /* c */ "]));
        }
    }
    s
}

const LAYOUT_SAFE: Layout = Layout { directives: false, defines: false, non_ascii: true, form_feed: true, comments: true };
const LAYOUT_DIRS: Layout = Layout { directives: true, defines: true, non_ascii: true, form_feed: true, comments: true };

/// A source text for the tree-side properties (mostly accepted ones).
pub fn tree_input(env: &Env, rng: &mut Rng) -> SvInput {
    let mut i = tree_input_inner(env, rng);
    // A.1.2 source_text ::= [ timeunits_declaration ] { description }: the optional header of a compilation unit
    if i.gram == Gram::Sv && rng.chance(1, 10) {
        let t = *rng.pick(&[
            "timeunit 1ns;\n",
            "timeprecision 1ps;\n",
            "timeunit 1ns; timeprecision 10ps;\n",
            "timeunit 100ps / 10fs;\n",
            "// header\ntimeprecision 1fs;\ntimeunit 1ps;\n",
        ]);
        i.text = format!("{}{}", t, i.text);
    }
    i
}

fn tree_input_inner(env: &Env, rng: &mut Rng) -> SvInput {
    let k = rng.below(100);
    if k < 8 {
        return SvInput { text: lib_text(rng), kind: "lib", gram: Gram::Lib };
    }
    if k < 30 {
        return SvInput { text: crate::gen_sv::program(rng, &crate::gen_sv::Opts::default()).text, kind: "gsv", gram: Gram::Sv };
    }
    let p = env.corpus.pick_program(rng).to_string();
    if k < 45 {
        return SvInput { text: p, kind: "corpus", gram: Gram::Sv };
    }
    if k < 65 {
        if let Some(t) = mutate::relayout(&p, rng, &LAYOUT_SAFE) {
            return SvInput { text: t, kind: "corpus-relayout", gram: Gram::Sv };
        }
        return SvInput { text: p, kind: "corpus", gram: Gram::Sv };
    }
    if k < 80 {
        if let Some(t) = mutate::relayout(&p, rng, &LAYOUT_DIRS) {
            return SvInput { text: t, kind: "corpus-relayout-directives", gram: Gram::Sv };
        }
        return SvInput { text: p, kind: "corpus", gram: Gram::Sv };
    }
    if k < 90 {
        // concatenation of programs
        let mut t = p;
        for _ in 0..rng.range(1, 3) {
            t.push('\n');
            t.push_str(env.corpus.pick_program(rng));
        }
        return SvInput { text: t, kind: "corpus-concat", gram: Gram::Sv };
    }
    SvInput { text: mutate::token_mutate(&p, rng), kind: "corpus-tokmut", gram: Gram::Sv }
}

/// very small inputs for the interpreter legs (Miri runs ~4 orders of magnitude slower than native)
pub const TINY_SV: &[&str] = &[
    "module m; endmodule\n",
    "module m(input a, output b); assign b = a; endmodule\n",
    "module m; wire [3:0] w = 4'h3; endmodule",
    "package p; localparam X = 1; endpackage\n",
    "class c; int x; endclass",
    "interface i; logic l; endinterface",
    "module m; initial begin a = 1; end endmodule",
    "`define A 1\nmodule m; wire w = `A; endmodule\n",
    "module m; // c\n/* é */ wire \\e+1 ; endmodule",
    "module m; `celldefine wire w; endmodule",
    "`timescale 1ns/1ps\nmodule m; endmodule",
    "module m; string s = \"a\\n\"; endmodule",
    "`define F(a) a+1\nmodule m; assign x = `F(2); endmodule",
    "`ifdef A\nmodule a; endmodule\n`else\nmodule b; endmodule\n`endif\n",
    "module m; sub u (.a(1)); endmodule",
    "function int f(input int a); return a; endfunction",
];

pub const TINY_LIB: &[&str] = &["library l a.v;\n", "include b.map ;", "library l \"a b.v\" , c.v -incdir d ;\n", "; ;"];

pub fn tiny_input(rng: &mut Rng) -> SvInput {
    if rng.chance(1, 5) {
        SvInput { text: rng.pick(TINY_LIB).to_string(), kind: "tiny-lib", gram: Gram::Lib }
    } else {
        SvInput { text: rng.pick(TINY_SV).to_string(), kind: "tiny-sv", gram: Gram::Sv }
    }
}
