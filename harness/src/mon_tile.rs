//! C01 monitor: the leaves of a tree tile the text.

use sv_parser::*;

#[derive(Debug, Default, Clone)]
pub struct TileStats {
    pub leaves: u64,
    pub nodes: u64,
    pub nodes_getstr_checked: u64,
    pub end: usize,
}

/// Check the leaf sequence of `it` against `text`.
/// `strict`: leaves must reach `text.len()`; otherwise only a prefix.
/// Returns Err(message) on the first broken law.  Never calls get_str.
pub fn check_leaves<'a, I: IntoIterator<Item = RefNode<'a>>>(
    it: I,
    text: &str,
    strict: bool,
) -> Result<TileStats, String> {
    let bytes = text.as_bytes();
    let mut st = TileStats::default();
    let mut pos = 0usize;
    let mut line = 1u32;
    // newline prefix count advanced incrementally
    let mut counted_upto = 0usize;
    for n in it {
        st.nodes += 1;
        if let RefNode::Locate(l) = n {
            st.leaves += 1;
            if l.offset != pos {
                return Err(format!(
                    "leaf #{} at offset {} (len {}) does not follow previous end {} ({})",
                    st.leaves,
                    l.offset,
                    l.len,
                    pos,
                    if l.offset > pos { "gap" } else { "overlap" }
                ));
            }
            if l.len == 0 {
                return Err(format!("empty leaf #{} at offset {}", st.leaves, l.offset));
            }
            let end = match l.offset.checked_add(l.len) {
                Some(e) => e,
                None => return Err(format!("leaf #{} overflows", st.leaves)),
            };
            if end > text.len() {
                return Err(format!("leaf #{} [{}, {}) exceeds text length {}", st.leaves, l.offset, end, text.len()));
            }
            if !text.is_char_boundary(l.offset) || !text.is_char_boundary(end) {
                return Err(format!("leaf #{} [{}, {}) is not on char boundaries", st.leaves, l.offset, end));
            }
            // line = 1 + newlines before offset
            while counted_upto < l.offset {
                if bytes[counted_upto] == b'\n' {
                    line += 1;
                }
                counted_upto += 1;
            }
            if l.line != line {
                return Err(format!(
                    "leaf #{} at offset {} records line {} but {} newlines precede it (expected line {})",
                    st.leaves,
                    l.offset,
                    l.line,
                    line - 1,
                    line
                ));
            }
            pos = end;
        }
    }
    st.end = pos;
    if strict && pos != text.len() {
        return Err(format!("leaves end at {} but text has {} bytes", pos, text.len()));
    }
    Ok(st)
}

/// After `check_leaves` succeeded: get_str laws.  `max_nodes`: every node is checked when
/// the tree has at most that many nodes, otherwise every k-th.
pub fn check_get_str(tree: &SyntaxTree, text: &str, end: usize, max_nodes: usize, st: &mut TileStats) -> Result<(), String> {
    // concatenation over leaves reproduces the text prefix
    let mut cat = String::with_capacity(end);
    for n in tree {
        if let RefNode::Locate(l) = n {
            match tree.get_str(l) {
                Some(s) => cat.push_str(s),
                None => return Err("get_str(leaf) returned None".into()),
            }
        }
    }
    if cat != text[..end] {
        return Err(format!("concatenation of get_str over leaves differs from text[..{}]", end));
    }
    // per-node: events give every node's own leaf span
    let total = st.nodes as usize;
    let step = if total <= max_nodes { 1 } else { (total / max_nodes) + 1 };
    let mut stack: Vec<(RefNode, Option<usize>, usize)> = Vec::new(); // node, first leaf offset, last end
    let mut idx = 0usize;
    for ev in tree.into_iter().event() {
        match ev {
            NodeEvent::Enter(n) => {
                if let RefNode::Locate(l) = &n {
                    for e in stack.iter_mut() {
                        if e.1.is_none() {
                            e.1 = Some(l.offset);
                        }
                        e.2 = l.offset + l.len;
                    }
                    stack.push((n.clone(), Some(l.offset), l.offset + l.len));
                } else {
                    stack.push((n, None, 0));
                }
            }
            NodeEvent::Leave(_) => {
                let (n, beg, e) = match stack.pop() {
                    Some(x) => x,
                    None => return Err("event stream: Leave without Enter".into()),
                };
                idx += 1;
                if idx % step != 0 {
                    continue;
                }
                st.nodes_getstr_checked += 1;
                let got = tree.get_str(vec![n.clone()]);
                match (beg, got) {
                    (None, None) => {}
                    (Some(b), Some(s)) => {
                        if s != &text[b..e] {
                            return Err(format!(
                                "get_str({}) = {:?} but its own leaves span [{}, {}) = {:?}",
                                n,
                                crate::util::clip(s, 80),
                                b,
                                e,
                                crate::util::clip(&text[b..e], 80)
                            ));
                        }
                    }
                    (b, g) => {
                        return Err(format!("get_str({}) is {:?} but node has leaf span {:?}", n, g.map(|x| x.len()), b));
                    }
                }
            }
        }
    }
    Ok(())
}
