//! Thin, panic-isolating wrappers around the public API and canonical result forms.

use crate::util::*;
use std::cell::{Cell, RefCell};
use std::collections::HashMap;
use std::panic::{catch_unwind, AssertUnwindSafe};
use std::path::{Path, PathBuf};
use sv_parser::*;

pub type Defs = Defines;

thread_local!(
    static IN_LIB: Cell<u32> = Cell::new(0);
    static LAST_PANIC: RefCell<Option<String>> = RefCell::new(None);
);

pub fn install_panic_hook() {
    std::panic::set_hook(Box::new(|info| {
        let msg = if let Some(s) = info.payload().downcast_ref::<&str>() {
            s.to_string()
        } else if let Some(s) = info.payload().downcast_ref::<String>() {
            s.clone()
        } else {
            "<non-string payload>".to_string()
        };
        let loc = info
            .location()
            .map(|l| format!("{}:{}:{}", l.file(), l.line(), l.column()))
            .unwrap_or_default();
        let text = format!("{} @ {}", msg, loc);
        let in_lib = IN_LIB.with(|x| x.get()) > 0;
        LAST_PANIC.with(|x| *x.borrow_mut() = Some(text.clone()));
        if !in_lib {
            eprintln!("HARNESS PANIC: {}", text);
        }
    }));
}

#[derive(Debug, Clone)]
pub struct LibPanic(pub String);

/// Run library code; a panic inside is returned as a value (message + location).
pub fn lib<T>(f: impl FnOnce() -> T) -> Result<T, LibPanic> {
    IN_LIB.with(|x| x.set(x.get() + 1));
    let r = catch_unwind(AssertUnwindSafe(f));
    IN_LIB.with(|x| x.set(x.get() - 1));
    match r {
        Ok(v) => Ok(v),
        Err(_) => Err(LibPanic(
            LAST_PANIC.with(|x| x.borrow_mut().take()).unwrap_or_else(|| "<unknown panic>".into()),
        )),
    }
}

pub fn last_panic() -> Option<String> {
    LAST_PANIC.with(|x| x.borrow_mut().take())
}

/// location of the panic with line numbers stripped to file (for signatures)
pub fn panic_site(p: &LibPanic) -> String {
    match p.0.rfind(" @ ") {
        Some(i) => p.0[i + 3..].to_string(),
        None => String::new(),
    }
}

// ----------------------------------------------------------------------------
// Canonical forms

#[derive(Clone, Debug, PartialEq, Eq)]
pub struct DefCanon {
    pub name: String,
    pub args: Vec<(String, Option<String>)>,
    pub text: Option<String>,
    pub origin: Option<(String, usize, usize)>,
}

pub fn canon_defines(d: &Defs, with_origin: bool, drop_cov: bool) -> Vec<(String, Option<DefCanon>)> {
    let mut v: Vec<(String, Option<DefCanon>)> = d
        .iter()
        .filter(|(k, _)| !(drop_cov && k.starts_with("SV_COV_")))
        .map(|(k, v)| {
            (
                k.clone(),
                v.as_ref().map(|d| DefCanon {
                    name: d.identifier.clone(),
                    args: d.arguments.clone(),
                    text: d.text.as_ref().map(|t| t.text.clone()),
                    origin: if with_origin {
                        d.text.as_ref().and_then(|t| {
                            t.origin
                                .as_ref()
                                .map(|(p, r)| (p.to_string_lossy().to_string(), r.begin, r.end))
                        })
                    } else {
                        None
                    },
                }),
            )
        })
        .collect();
    v.sort_by(|a, b| a.0.cmp(&b.0));
    v
}

#[derive(Clone, Debug, PartialEq, Eq)]
pub struct PpOut {
    pub text: String,
    pub defines: Vec<(String, Option<DefCanon>)>,
    pub origins: Vec<Option<(String, usize)>>,
}

#[derive(Clone, Debug, PartialEq, Eq)]
pub enum PpCanon {
    Ok(PpOut),
    Err(String),
    Panic(String),
}

pub fn origins_of(t: &PreprocessedText) -> Vec<Option<(String, usize)>> {
    (0..t.text().len())
        .map(|i| t.origin(i).map(|(p, o)| (p.to_string_lossy().to_string(), o)))
        .collect()
}

pub fn canon_pp(r: Result<Result<(PreprocessedText, Defs), Error>, LibPanic>) -> PpCanon {
    match r {
        Ok(Ok((t, d))) => PpCanon::Ok(PpOut {
            text: t.text().to_string(),
            defines: canon_defines(&d, true, false),
            origins: origins_of(&t),
        }),
        Ok(Err(e)) => PpCanon::Err(format!("{:?}", e)),
        Err(p) => PpCanon::Panic(p.0),
    }
}

impl PpCanon {
    pub fn brief(&self) -> String {
        match self {
            PpCanon::Ok(o) => format!("Ok(text={:?}, {} defines)", clip(&o.text, 200), o.defines.len()),
            PpCanon::Err(e) => format!("Err({})", clip(e, 300)),
            PpCanon::Panic(e) => format!("PANIC({})", clip(e, 300)),
        }
    }
}

/// exact skeleton of a tree: hash over (kind name, Locate) in iteration order
#[derive(Clone, Debug, PartialEq, Eq)]
pub struct Skel {
    pub hash: u64,
    pub nodes: usize,
    pub leaves: usize,
}

pub fn exact_skeleton<'a, I: IntoIterator<Item = RefNode<'a>>>(it: I) -> Skel
where
    I::IntoIter: IntoEvent<'a>,
{
    // Taken from the event view, so that the *nesting* is part of the skeleton: two trees with the same pre-order
    // sequence of kinds and leaves but another parent for some node (a comment inside the directive in front of it
    // instead of behind it) differ.  WhiteSpace carries its variant, which no RefNode kind shows (Space and Newline
    // both hold a bare Locate).
    let mut f = Fnv::new();
    let (mut n, mut l) = (0, 0);
    let mut name = String::new();
    for ev in it.into_iter().into_event() {
        let x = match ev {
            NodeEvent::Leave(_) => {
                f.u64(0x3c);
                continue;
            }
            NodeEvent::Enter(x) => x,
        };
        n += 1;
        match x {
            RefNode::Locate(loc) => {
                l += 1;
                f.u64(0x4c);
                f.u64(loc.offset as u64);
                f.u64(loc.line as u64);
                f.u64(loc.len as u64);
            }
            y => {
                use std::fmt::Write;
                name.clear();
                let _ = write!(name, "{}", y);
                f.str(&name);
                if let RefNode::WhiteSpace(w) = y {
                    f.u64(match w {
                        WhiteSpace::Space(_) => 1,
                        WhiteSpace::Newline(_) => 2,
                        WhiteSpace::Comment(_) => 3,
                        WhiteSpace::CompilerDirective(_) => 4,
                    });
                }
            }
        }
    }
    Skel { hash: f.0, nodes: n, leaves: l }
}

/// Layout-free skeleton: node kinds outside `WhiteSpace` subtrees, leaves replaced
/// by their text.  `drop_resetall` removes `Description::ResetallCompilerDirective` subtrees.
pub fn layout_free<'a, I: IntoIterator<Item = RefNode<'a>>>(it: I, text: &str, drop_resetall: bool) -> Vec<String>
where
    I::IntoIter: IntoEvent<'a>,
{
    let mut out = Vec::new();
    let mut ws = 0usize;
    let mut ra = 0usize;
    for ev in it.into_iter().into_event() {
        match ev {
            NodeEvent::Enter(RefNode::WhiteSpace(_)) => ws += 1,
            NodeEvent::Leave(RefNode::WhiteSpace(_)) => ws -= 1,
            // `resetall between descriptions is a Description of its own: drop the wrapper with it
            NodeEvent::Enter(RefNode::Description(Description::ResetallCompilerDirective(_))) if drop_resetall => ra += 1,
            NodeEvent::Leave(RefNode::Description(Description::ResetallCompilerDirective(_))) if drop_resetall => ra -= 1,
            NodeEvent::Enter(RefNode::Locate(l)) => {
                if ws == 0 && ra == 0 {
                    let s = text.get(l.offset..l.offset + l.len).unwrap_or("<out-of-range>");
                    out.push(format!("'{}", s));
                }
            }
            NodeEvent::Enter(x) => {
                if ws == 0 && ra == 0 {
                    out.push(format!("{}", x));
                }
            }
            // nesting is part of the skeleton (a node that moves to another parent without changing the pre-order
            // sequence must show): one closing mark per node that was listed
            NodeEvent::Leave(RefNode::Locate(_)) => {}
            NodeEvent::Leave(_) => {
                if ws == 0 && ra == 0 {
                    out.push(")".to_string());
                }
            }
        }
    }
    out
}

pub trait IntoEvent<'a> {
    fn into_event(self) -> EventIter<'a>;
}
impl<'a> IntoEvent<'a> for Iter<'a> {
    fn into_event(self) -> EventIter<'a> {
        self.event()
    }
}

#[derive(Clone, Debug, PartialEq, Eq)]
pub enum ParseCanon {
    Ok { skel: Skel, defines: Vec<(String, Option<DefCanon>)>, origins_hash: u64 },
    Err(String),
    Panic(String),
}

impl ParseCanon {
    pub fn brief(&self) -> String {
        match self {
            ParseCanon::Ok { skel, defines, .. } => {
                format!("Ok(nodes={}, leaves={}, hash={:x}, defines={})", skel.nodes, skel.leaves, skel.hash, defines.len())
            }
            ParseCanon::Err(e) => format!("Err({})", clip(e, 300)),
            ParseCanon::Panic(e) => format!("PANIC({})", clip(e, 300)),
        }
    }
    pub fn is_ok(&self) -> bool {
        matches!(self, ParseCanon::Ok { .. })
    }
}

pub fn canon_parse(r: Result<Result<(SyntaxTree, Defs), Error>, LibPanic>) -> ParseCanon {
    match r {
        Ok(Ok((t, d))) => {
            let inner = lib(|| {
                let skel = exact_skeleton(&t);
                let mut f = Fnv::new();
                for n in &t {
                    if let RefNode::Locate(l) = n {
                        match t.get_origin(l) {
                            Some((p, o)) => {
                                f.str(&p.to_string_lossy());
                                f.u64(o as u64)
                            }
                            None => f.u64(u64::MAX),
                        }
                    }
                }
                (skel, f.0)
            });
            match inner {
                Ok((skel, oh)) => ParseCanon::Ok { skel, defines: canon_defines(&d, true, false), origins_hash: oh },
                Err(p) => ParseCanon::Panic(p.0),
            }
        }
        Ok(Err(e)) => ParseCanon::Err(format!("{:?}", e)),
        Err(p) => ParseCanon::Panic(p.0),
    }
}

// ----------------------------------------------------------------------------
// Calls

#[derive(Clone, Debug, Default)]
pub struct Cfg {
    pub defines: Vec<(String, Option<(Vec<(String, Option<String>)>, Option<String>)>)>,
    pub include_paths: Vec<PathBuf>,
    pub ignore_include: bool,
    pub allow_incomplete: bool,
    pub strip_comments: bool,
}

impl Cfg {
    pub fn defs(&self) -> Defs {
        let mut d: Defs = HashMap::new();
        for (k, v) in &self.defines {
            d.insert(
                k.clone(),
                v.as_ref().map(|(args, text)| {
                    Define::new(k.clone(), args.clone(), text.as_ref().map(|t| DefineText::new(t.clone(), None)))
                }),
            );
        }
        d
    }
    pub fn json(&self) -> String {
        Obj::new()
            .raw(
                "defines",
                &json_arr(self.defines.iter().map(|(k, v)| {
                    Obj::new().s("name", k).s("value", &format!("{:?}", v)).done()
                })),
            )
            .raw("include_paths", &json_arr(self.include_paths.iter().map(|p| json_str(&p.to_string_lossy()))))
            .b("ignore_include", self.ignore_include)
            .b("allow_incomplete", self.allow_incomplete)
            .b("strip_comments", self.strip_comments)
            .done()
    }
}

pub fn pp_str(s: &str, path: &Path, cfg: &Cfg) -> Result<Result<(PreprocessedText, Defs), Error>, LibPanic> {
    let d = cfg.defs();
    lib(|| preprocess_str(s, path, &d, &cfg.include_paths, cfg.ignore_include, cfg.strip_comments, 0, 0))
}

pub fn pp_file(path: &Path, cfg: &Cfg) -> Result<Result<(PreprocessedText, Defs), Error>, LibPanic> {
    let d = cfg.defs();
    lib(|| preprocess(path, &d, &cfg.include_paths, cfg.strip_comments, cfg.ignore_include))
}

#[derive(Clone, Copy, PartialEq, Eq, Debug)]
pub enum Gram {
    Sv,
    Lib,
}

pub fn parse_str(g: Gram, s: &str, path: &Path, cfg: &Cfg) -> Result<Result<(SyntaxTree, Defs), Error>, LibPanic> {
    let d = cfg.defs();
    lib(|| match g {
        Gram::Sv => parse_sv_str(s, path, &d, &cfg.include_paths, cfg.ignore_include, cfg.allow_incomplete),
        Gram::Lib => parse_lib_str(s, path, &d, &cfg.include_paths, cfg.ignore_include, cfg.allow_incomplete),
    })
}

pub fn parse_file(g: Gram, path: &Path, cfg: &Cfg) -> Result<Result<(SyntaxTree, Defs), Error>, LibPanic> {
    let d = cfg.defs();
    lib(|| match g {
        Gram::Sv => parse_sv(path, &d, &cfg.include_paths, cfg.ignore_include, cfg.allow_incomplete),
        Gram::Lib => parse_lib(path, &d, &cfg.include_paths, cfg.ignore_include, cfg.allow_incomplete),
    })
}

pub fn parse_pp(g: Gram, t: PreprocessedText, d: Defs, incomplete: bool) -> Result<Result<(SyntaxTree, Defs), Error>, LibPanic> {
    lib(|| match g {
        Gram::Sv => parse_sv_pp(t, d, incomplete),
        Gram::Lib => parse_lib_pp(t, d, incomplete),
    })
}

pub fn simple_cfg() -> Cfg {
    Cfg::default()
}
