//! G-SV: Annex A sentence generator with expected facts (DESIGN 3.3, Appendix A).
//!
//! Emits a token list with kinds; text is produced by joining the tokens with a
//! seeded layout, so byte ranges of all tokens are known by construction.

use crate::util::Rng;

#[derive(Clone, Copy, Debug, PartialEq, Eq)]
pub enum TK {
    Kw,
    Id,
    EscId,
    Num,
    Str,
    Sym,
}

#[derive(Clone, Debug)]
pub struct TokG {
    pub text: String,
    pub kind: TK,
}

#[derive(Clone, Debug, PartialEq, Eq, PartialOrd, Ord)]
pub struct Fact {
    pub kind: &'static str,
    pub name: String,
}

#[derive(Clone, Debug)]
pub struct NamePos {
    pub tok: usize,
    /// kind of declaration the identifier names (module, net, var, port, param, inst, func, task, genvar, label)
    pub what: &'static str,
    /// index of top-level description the token belongs to
    pub desc: usize,
}

#[derive(Clone, Debug)]
pub struct Opts {
    pub max_items: usize,
    /// begin every block / task / function body with a non-assignment statement (K6 steering)
    pub k6_safe: bool,
    pub escaped_ids: bool,
    pub classes: bool,
    pub layout: Layout,
}

#[derive(Clone, Copy, Debug, PartialEq, Eq)]
pub enum Layout {
    /// single blank between tokens
    Plain,
    /// random blanks / newlines / comments, nothing where allowed
    Random,
}

impl Default for Opts {
    fn default() -> Self {
        Opts { max_items: 8, k6_safe: true, escaped_ids: true, classes: true, layout: Layout::Random }
    }
}

#[derive(Clone, Debug)]
pub struct Program {
    pub toks: Vec<TokG>,
    pub facts: Vec<Fact>,
    /// admissible alternatives: the fact `.0` may instead appear as kind `.1`
    pub alt: Vec<(Fact, &'static str)>,
    pub name_pos: Vec<NamePos>,
    /// token index at which each top-level description starts
    pub desc_starts: Vec<usize>,
    pub text: String,
    /// byte range of every token in `text`
    pub spans: Vec<(usize, usize)>,
    /// K6-shaped leading assignments: identifiers that the K6 quirk reports as VariableDeclAssignment
    pub k6_names: Vec<String>,
    pub counts: Vec<(&'static str, usize)>,
}

const KW_PREFIXED: &[&str] = &[
    "module_x", "end", "wirex", "beginning", "logic_", "input_", "always1", "assignx", "regs", "function_a", "task_", "endmodule_", "int_", "bit_x",
    "forkk", "casex_", "if_", "else_", "for_", "do_", "begin_", "end_", "wire_", "reg_", "generate_", "initial_", "packagee", "class_", "new_", "this_",
    "null_", "super_", "interface_", "programm", "typedef_", "enumm", "struct_", "inside_", "return_", "voidd", "bytee", "stringg",
];

struct ModInfo {
    name: String,
    ports: Vec<String>,
    params: Vec<String>,
    is_interface: bool,
}

struct G<'r> {
    r: &'r mut Rng,
    n: u32,
    toks: Vec<TokG>,
    facts: Vec<Fact>,
    alt: Vec<(Fact, &'static str)>,
    name_pos: Vec<NamePos>,
    desc_starts: Vec<usize>,
    mods: Vec<ModInfo>,
    typedefs: Vec<String>,
    packages: Vec<(String, Vec<String>)>,
    opts: Opts,
    k6_names: Vec<String>,
    desc: usize,
    counts: std::collections::BTreeMap<&'static str, usize>,
}

impl<'r> G<'r> {
    fn kw(&mut self, s: &str) {
        self.toks.push(TokG { text: s.to_string(), kind: TK::Kw });
    }
    fn kws(&mut self, s: &str) {
        for w in s.split_whitespace() {
            self.kw(w);
        }
    }
    fn sym(&mut self, s: &str) {
        self.toks.push(TokG { text: s.to_string(), kind: TK::Sym });
    }
    fn num(&mut self, s: &str) {
        self.toks.push(TokG { text: s.to_string(), kind: TK::Num });
    }
    fn st(&mut self, s: &str) {
        self.toks.push(TokG { text: s.to_string(), kind: TK::Str });
    }
    fn kwp(&mut self, v: &[&str]) {
        let s = *self.r.pick(v);
        self.kw(s);
    }
    fn symp(&mut self, v: &[&str]) {
        let s = *self.r.pick(v);
        self.sym(s);
    }
    fn nump(&mut self, v: &[&str]) {
        let s = *self.r.pick(v);
        self.num(s);
    }
    fn stp(&mut self, v: &[&str]) {
        let s = *self.r.pick(v);
        self.st(s);
    }
    fn id(&mut self, s: &str) -> usize {
        let kind = if s.starts_with('\\') { TK::EscId } else { TK::Id };
        self.toks.push(TokG { text: s.to_string(), kind });
        self.toks.len() - 1
    }
    /// identifier at a plain declaration position
    fn decl(&mut self, s: &str, what: &'static str) {
        let t = self.id(s);
        self.name_pos.push(NamePos { tok: t, what, desc: self.desc });
    }
    fn fact(&mut self, kind: &'static str, name: &str) {
        self.facts.push(Fact { kind, name: name.to_string() });
    }
    fn fact_alt(&mut self, kind: &'static str, name: &str, other: &'static str) {
        self.facts.push(Fact { kind, name: name.to_string() });
        self.alt.push((Fact { kind, name: name.to_string() }, other));
    }
    fn cnt(&mut self, k: &'static str) {
        *self.counts.entry(k).or_insert(0) += 1;
    }

    fn fresh(&mut self, esc_ok: bool) -> String {
        self.n += 1;
        let k = self.r.below(100);
        if k < 35 {
            format!("{}{}", self.r.pick(KW_PREFIXED), self.n)
        } else if k < 45 {
            format!("a$b{}", self.n)
        } else if k < 55 && self.opts.escaped_ids && (esc_ok || self.r.chance(1, 3)) {
            // (an escaped identifier may stand wherever an identifier may: names of functions, tasks, design elements,
            // types, parameters, labels ... get one now and then, not only nets, variables, instances and ports)
            match self.r.below(4) {
                0 => format!("\\e+{}*x", self.n),
                1 => format!("\\module{}", self.n),
                2 => format!("\\{}(a)", self.n),
                _ => format!("\\x{}.y", self.n),
            }
        } else if k < 62 {
            format!("X{}", self.n)
        } else if k < 68 {
            format!("_u{}", self.n)
        } else {
            format!("sig{}", self.n)
        }
    }

    // ------------------------------------------------------------------ expressions

    fn literal(&mut self) {
        let v = [
            "1", "0", "42", "8'hFF", "'d3", "4'sb1x0z", "16'o7_7", "'0", "'1", "'x", "'z", "1.5", "1e-3", "2.0e+2", "3'b1?0", "'hdead_BEEF",
            "12'hA_b", "32'sd17", "1_000", "'sh7f",
            // A.8.7: white space may separate size, base and digits; exponents may be upper case; x/z/? digits
            "5 'D 3", "4 'shf", "32 'h 12ab_f001", "8'h FF", "'h 837FF", "23E10", "29E-2", "1.2E12", "236.123_763_e-12", "4'B1001", "12'o7xz", "16'hz",
            "'b0?1", "1.30e-2", "0.1", "39e8",
        ];
        let s = *self.r.pick(&v);
        self.num(s);
    }

    fn primary(&mut self, names: &[String], d: usize) {
        let k = self.r.below(100);
        if !names.is_empty() && k < 45 {
            let nm = self.r.pick(names).clone();
            self.id(&nm);
            if self.r.chance(1, 5) {
                self.sym("[");
                match self.r.below(4) {
                    0 => self.num("0"),
                    1 => {
                        self.num("3");
                        self.sym(":");
                        self.num("0")
                    }
                    2 => {
                        self.num("1");
                        self.sym("+:");
                        self.num("2")
                    }
                    _ => {
                        self.num("7");
                        self.sym("-:");
                        self.num("4")
                    }
                }
                self.sym("]");
            }
        } else if k < 70 {
            self.literal();
        } else if k < 74 {
            // incl. a literal that continues over a line break (backslash-newline) — later leaves must still count lines right
            self.stp(&["\"str\"", "\"a\\n\\\"q\"", "\"\"", "\"x // y /* z\"", "\"é\"", "\"%d end\"", "\"l1\\\nl2\"", "\"two\\\n lines \\\n three\""]);
        } else if k < 80 {
            self.sym("(");
            self.expr(names, d + 1);
            self.sym(")");
        } else if k < 86 {
            self.sym("{");
            self.expr(names, d + 1);
            if self.r.chance(1, 2) {
                self.sym(",");
                self.expr(names, d + 1);
            }
            self.sym("}");
        } else if k < 90 {
            self.sym("{");
            self.nump(&["2", "3"]);
            self.sym("{");
            self.expr(names, d + 1);
            self.sym("}");
            self.sym("}");
        } else if k < 94 {
            self.kwp(&["$clog2", "$bits", "$signed", "$unsigned"]);
            self.sym("(");
            self.expr(names, d + 1);
            self.sym(")");
        } else if k < 97 {
            // cast
            self.kwp(&["int", "unsigned", "signed", "byte"]);
            self.sym("'");
            self.sym("(");
            self.expr(names, d + 1);
            self.sym(")");
        } else if self.r.chance(1, 2) {
            self.sym("(");
            self.expr(names, d + 1);
            self.sym(":");
            self.expr(names, d + 1);
            self.sym(":");
            self.expr(names, d + 1);
            self.sym(")");
        } else {
            self.primary_extra(names, d);
        }
    }

    /// further primaries of A.8.4 / A.8.1
    fn primary_extra(&mut self, names: &[String], d: usize) {
        match self.r.below(7) {
            0 => {
                // function call in an expression
                let f = self.fresh(false);
                self.id(&f);
                self.sym("(");
                self.expr(names, d + 2);
                if self.r.chance(1, 2) {
                    self.sym(",");
                    self.expr(names, d + 2);
                }
                self.sym(")");
            }
            1 if !names.is_empty() => {
                // hierarchical / member access
                let a = self.r.pick(names).clone();
                self.id(&a);
                self.sym(".");
                let m = self.fresh(false);
                self.id(&m);
                if self.r.chance(1, 3) {
                    self.sym(".");
                    let m2 = self.fresh(false);
                    self.id(&m2);
                }
            }
            2 => {
                // assignment pattern
                self.sym("'{");
                if self.r.chance(1, 2) {
                    self.kw("default");
                    self.sym(":");
                    self.num("0");
                } else {
                    self.num("0");
                    self.sym(",");
                    self.num("1");
                }
                self.sym("}");
            }
            3 => {
                // streaming concatenation
                self.sym("{");
                self.symp(&["<<", ">>"]);
                if self.r.chance(1, 2) {
                    self.num("8");
                }
                self.sym("{");
                self.expr(names, d + 2);
                self.sym("}");
                self.sym("}");
            }
            4 => {
                // user-type / constant cast
                self.num("8");
                self.sym("'");
                self.sym("(");
                self.expr(names, d + 2);
                self.sym(")");
            }
            5 => {
                self.kwp(&["$time", "$realtime", "$random"]);
            }
            _ => {
                self.kwp(&["this", "null"]);
            }
        }
    }

    fn expr(&mut self, names: &[String], d: usize) {
        let k = self.r.below(100);
        if d > 2 || k < 35 {
            self.primary(names, d);
        } else if k < 70 {
            self.expr(names, d + 1);
            let op = *self.r.pick(&[
                "+", "-", "*", "/", "%", "==", "!=", "===", "!==", "==?", "!=?", "&&", "||", "**", "<", "<=", ">", ">=", "&", "|", "^", "^~", "~^", ">>",
                "<<", ">>>", "<<<", "->", "<->",
            ]);
            self.sym(op);
            self.expr(names, d + 1);
        } else if k < 80 {
            let op = *self.r.pick(&["~", "!", "-", "+", "&", "|", "^", "~&", "~|", "~^", "^~"]);
            self.sym(op);
            // operand of a unary operator is a primary (A.8.3)
            self.primary(names, d + 2);
        } else if k < 90 {
            // conditional: cond_predicate ? e : e ; parenthesise to keep precedence unambiguous
            self.sym("(");
            self.expr(names, d + 1);
            self.sym(")");
            self.sym("?");
            self.expr(names, d + 1);
            self.sym(":");
            self.expr(names, d + 1);
        } else if k < 95 {
            self.primary(names, d + 1);
            self.kw("inside");
            self.sym("{");
            self.num("1");
            self.sym(",");
            self.sym("[");
            self.num("4");
            self.sym(":");
            self.num("7");
            self.sym("]");
            self.sym("}");
        } else {
            self.primary(names, d);
        }
    }

    fn const_expr(&mut self, params: &[String]) {
        let k = self.r.below(100);
        if k < 40 || params.is_empty() {
            self.nump(&["1", "8", "4", "16", "2"]);
        } else if k < 70 {
            let p = self.r.pick(params).clone();
            self.id(&p);
        } else {
            let p = self.r.pick(params).clone();
            self.id(&p);
            self.symp(&["+", "-", "*"]);
            self.num("1");
        }
    }

    fn range(&mut self) {
        self.sym("[");
        self.nump(&["3", "7", "15", "31"]);
        self.sym(":");
        self.num("0");
        self.sym("]");
    }

    // ------------------------------------------------------------------ statements

    fn lvalue(&mut self, names: &[String]) {
        let nm = self.r.pick(names).clone();
        self.id(&nm);
    }

    /// a statement that is not of the K6 shape `identifier [dims] = expr ;`
    fn non_assign_stmt(&mut self, names: &[String]) {
        match self.r.below(3) {
            0 => self.sym(";"),
            1 => {
                self.kw("$display");
                self.sym("(");
                self.st("\"v=%d\"");
                self.sym(",");
                self.expr(names, 2);
                self.sym(")");
                self.sym(";");
            }
            _ => {
                self.lvalue(names);
                self.sym("<=");
                self.expr(names, 1);
                self.sym(";");
            }
        }
    }

    fn block_body(&mut self, names: &[String], d: usize, n: usize) {
        if !self.opts.k6_safe {
            // K6 sub-workload: an explicit leading run of `identifier = expression ;`
            let run = self.r.range(0, 2);
            for _ in 0..run {
                let nm = self.r.pick(names).clone();
                self.id(&nm);
                self.sym("=");
                self.expr(names, 1);
                self.sym(";");
                self.k6_names.push(nm);
            }
        }
        // barrier: a statement that cannot be read as a declaration
        self.non_assign_stmt(names);
        for _ in 0..n {
            self.stmt(names, d + 1);
        }
    }

    fn stmt(&mut self, names: &[String], d: usize) {
        self.stmt_x(names, d, true)
    }

    /// `null_ok`: position is a statement_or_null (A.6.4); always/final take a statement
    fn stmt_x(&mut self, names: &[String], d: usize, null_ok: bool) {
        if d <= 2 && self.r.chance(1, 6) {
            self.stmt_extra(names, d);
            return;
        }
        let mut k = self.r.below(100);
        if !null_ok && k >= 97 {
            k = 0;
        }
        if d > 2 || k < 30 {
            self.cnt("assign_stmt");
            self.lvalue(names);
            match self.r.below(4) {
                0 => self.sym("="),
                1 => self.sym("<="),
                2 => self.symp(&["+=", "-=", "|=", "&=", "^=", "<<=", ">>>="]),
                _ => {
                    self.sym("=");
                    self.sym("#");
                    self.num("1");
                }
            }
            self.expr(names, 1);
            self.sym(";");
        } else if k < 42 {
            self.cnt("if");
            if self.r.chance(1, 5) {
                self.kwp(&["unique", "priority", "unique0"]);
            }
            self.kw("if");
            self.sym("(");
            self.expr(names, 1);
            self.sym(")");
            self.stmt(names, d + 1);
            if self.r.chance(1, 2) {
                self.kw("else");
                self.stmt(names, d + 1);
            }
        } else if k < 52 {
            self.cnt("seq_block");
            self.kw("begin");
            let lab = if self.r.chance(1, 2) {
                let l = self.fresh(false);
                self.sym(":");
                self.decl(&l, "label");
                self.fact("BlockIdentifier", &l);
                Some(l)
            } else {
                None
            };
            let n = self.r.range(0, 2);
            self.block_body(names, d, n);
            self.kw("end");
            if let Some(l) = lab {
                if self.r.chance(1, 3) {
                    self.sym(":");
                    self.id(&l);
                    self.fact("BlockIdentifier", &l);
                }
            }
        } else if k < 60 {
            self.cnt("case");
            if self.r.chance(1, 4) {
                self.kwp(&["unique", "priority"]);
            }
            self.kwp(&["case", "casez", "casex"]);
            self.sym("(");
            self.expr(names, 1);
            self.sym(")");
            self.num("0");
            self.sym(":");
            self.stmt(names, d + 1);
            self.num("1");
            self.sym(",");
            self.num("2");
            self.sym(":");
            self.stmt(names, d + 1);
            self.kw("default");
            if self.r.chance(1, 2) {
                self.sym(":");
            }
            self.sym(";");
            self.kw("endcase");
        } else if k < 68 {
            self.cnt("for");
            let i = self.fresh(false);
            self.kw("for");
            self.sym("(");
            self.kw("int");
            self.id(&i);
            self.sym("=");
            self.num("0");
            self.sym(";");
            self.id(&i);
            self.sym("<");
            self.num("4");
            self.sym(";");
            self.id(&i);
            self.sym("++");
            self.sym(")");
            let mut nn = names.to_vec();
            nn.push(i);
            self.stmt(&nn, d + 1);
        } else if k < 73 {
            self.cnt("while");
            self.kw("while");
            self.sym("(");
            self.expr(names, 1);
            self.sym(")");
            self.stmt(names, d + 1);
        } else if k < 77 {
            self.cnt("repeat");
            self.kw("repeat");
            self.sym("(");
            self.num("3");
            self.sym(")");
            self.stmt(names, d + 1);
        } else if k < 80 {
            self.cnt("do_while");
            self.kw("do");
            self.stmt(names, d + 1);
            self.kw("while");
            self.sym("(");
            self.expr(names, 1);
            self.sym(")");
            self.sym(";");
        } else if k < 83 {
            self.cnt("forever");
            self.kw("forever");
            self.sym("#");
            self.num("1");
            self.stmt(names, d + 1);
        } else if k < 88 {
            self.cnt("systf");
            self.kwp(&["$display", "$write", "$finish", "$error"]);
            if self.r.chance(3, 4) {
                self.sym("(");
                self.stp(&["\"v=%d\"", "\"end\"", "\"\\\"q\\\" x\""]);
                self.sym(",");
                self.expr(names, 1);
                self.sym(")");
            }
            self.sym(";");
        } else if k < 92 {
            self.cnt("delay_or_event");
            match self.r.below(3) {
                0 => {
                    self.sym("#");
                    self.nump(&["1", "2.5", "10ns", "1step"]);
                }
                1 => {
                    self.sym("@");
                    self.sym("(");
                    self.kwp(&["posedge", "negedge"]);
                    self.lvalue(names);
                    self.sym(")");
                }
                _ => {
                    self.sym("@");
                    self.sym("(");
                    self.lvalue(names);
                    self.kw("or");
                    self.lvalue(names);
                    self.sym(")");
                }
            }
            self.stmt(names, d + 1);
        } else if k < 95 {
            self.cnt("par_block");
            self.kw("fork");
            let n = self.r.range(0, 2);
            self.block_body(names, d, n);
            self.kwp(&["join", "join_any", "join_none"]);
        } else if k < 97 {
            self.cnt("wait");
            self.kw("wait");
            self.sym("(");
            self.expr(names, 1);
            self.sym(")");
            self.stmt(names, d + 1);
        } else {
            self.cnt("null_stmt");
            self.sym(";");
        }
    }

    /// further statement forms of A.6 (chosen by `stmt_x` with a separate weight)
    fn stmt_extra(&mut self, names: &[String], d: usize) {
        match self.r.below(13) {
            0 => {
                self.cnt("foreach");
                self.kw("foreach");
                self.sym("(");
                self.lvalue(names);
                self.sym("[");
                let i = self.fresh(false);
                self.id(&i);
                self.sym("]");
                self.sym(")");
                // A.6.8: foreach takes a statement, not a statement_or_null
                self.stmt_x(names, d + 1, false);
            }
            1 => {
                self.cnt("jump");
                self.kwp(&["break", "continue", "return"]);
                self.sym(";");
            }
            2 => {
                self.cnt("disable");
                self.kw("disable");
                if self.r.chance(1, 3) {
                    self.kw("fork");
                } else {
                    let l = self.fresh(false);
                    self.id(&l);
                }
                self.sym(";");
            }
            3 => {
                self.cnt("tf_call_stmt");
                let f = self.fresh(false);
                self.id(&f);
                self.sym("(");
                self.expr(names, 2);
                if self.r.chance(1, 2) {
                    self.sym(",");
                    self.expr(names, 2);
                }
                self.sym(")");
                self.sym(";");
            }
            4 => {
                self.cnt("method_call_stmt");
                self.lvalue(names);
                self.sym(".");
                let m = self.fresh(false);
                self.id(&m);
                self.sym("(");
                if self.r.chance(1, 2) {
                    self.expr(names, 2);
                }
                self.sym(")");
                self.sym(";");
            }
            5 => {
                self.cnt("inc_dec_stmt");
                if self.r.chance(1, 2) {
                    self.lvalue(names);
                    self.symp(&["++", "--"]);
                } else {
                    self.symp(&["++", "--"]);
                    self.lvalue(names);
                }
                self.sym(";");
            }
            6 => {
                self.cnt("void_cast_stmt");
                self.kw("void");
                self.sym("'");
                self.sym("(");
                let f = self.fresh(false);
                self.id(&f);
                self.sym("(");
                self.expr(names, 2);
                self.sym(")");
                self.sym(")");
                self.sym(";");
            }
            7 => {
                self.cnt("immediate_assert");
                self.kwp(&["assert", "assume", "cover"]);
                self.sym("(");
                self.expr(names, 1);
                self.sym(")");
                if self.r.chance(1, 2) {
                    self.sym(";");
                } else {
                    self.kw("$display");
                    self.sym("(");
                    self.st("\"ok\"");
                    self.sym(")");
                    self.sym(";");
                }
            }
            8 => {
                self.cnt("event_trigger");
                self.symp(&["->", "->>"]);
                self.lvalue(names);
                self.sym(";");
            }
            9 => {
                self.cnt("wait_fork");
                self.kw("wait");
                self.kw("fork");
                self.sym(";");
            }
            10 => {
                self.cnt("member_assign");
                self.lvalue(names);
                self.sym(".");
                let m = self.fresh(false);
                self.id(&m);
                if self.r.chance(1, 3) {
                    self.sym("[");
                    self.num("1");
                    self.sym("]");
                }
                self.symp(&["=", "<="]);
                self.expr(names, 1);
                self.sym(";");
            }
            11 => {
                self.cnt("labelled_stmt");
                let l = self.fresh(false);
                self.id(&l);
                self.fact("BlockIdentifier", &l);
                self.sym(":");
                self.lvalue(names);
                self.sym("<=");
                self.expr(names, 1);
                self.sym(";");
            }
            _ => {
                self.cnt("procedural_continuous");
                match self.r.below(3) {
                    0 => {
                        self.kwp(&["assign", "force"]);
                        self.lvalue(names);
                        self.sym("=");
                        self.expr(names, 1);
                    }
                    1 => {
                        self.kwp(&["deassign", "release"]);
                        self.lvalue(names);
                    }
                    _ => {
                        self.kw("return");
                        self.expr(names, 1);
                    }
                }
                self.sym(";");
            }
        }
    }

    // ------------------------------------------------------------------ module items

    fn net_decl(&mut self, names: &mut Vec<String>) {
        self.cnt("net_decl");
        self.kwp(&["wire", "tri", "wand", "wor", "tri0", "tri1", "supply0", "uwire"]);
        if self.r.chance(1, 4) {
            self.kwp(&["signed", "unsigned"]);
        } else if self.r.chance(1, 4) {
            self.kw("logic");
        }
        if self.r.chance(1, 2) {
            self.range();
        }
        if self.r.chance(1, 6) {
            self.sym("#");
            self.num("2");
        }
        let n = self.r.range(1, 3);
        for i in 0..n {
            if i > 0 {
                self.sym(",");
            }
            let w = self.fresh(true);
            self.decl(&w, "net");
            self.fact("NetDeclAssignment", &w);
            if self.r.chance(1, 5) {
                // one dimension, now and then three or four (list elements of different widths in one declaration)
                let nd = *self.r.pick(&[1usize, 1, 1, 2, 3, 4]);
                for d in 0..nd {
                    self.sym("[");
                    self.num("0");
                    self.sym(":");
                    self.num(if d == 0 { "3" } else { "1" });
                    self.sym("]");
                }
            } else if !names.is_empty() && self.r.chance(1, 4) {
                self.sym("=");
                let nn = names.clone();
                self.expr(&nn, 1);
            }
            names.push(w);
        }
        self.sym(";");
    }

    fn var_decl(&mut self, names: &mut Vec<String>) {
        self.cnt("var_decl");
        if self.r.chance(1, 8) {
            self.kw("var");
        }
        let t = *self.r.pick(&["logic", "reg", "bit", "int", "integer", "byte", "shortint", "longint", "real", "time", "string"]);
        self.kw(t);
        if matches!(t, "logic" | "reg" | "bit") {
            if self.r.chance(1, 5) {
                self.kwp(&["signed", "unsigned"]);
            }
            if self.r.chance(1, 2) {
                self.range();
            }
        }
        let n = self.r.range(1, 3);
        for i in 0..n {
            if i > 0 {
                self.sym(",");
            }
            let v = self.fresh(true);
            self.decl(&v, "var");
            self.fact("VariableDeclAssignment", &v);
            if self.r.chance(1, 5) {
                // one dimension, now and then three or four (list elements of different widths in one declaration)
                let nd = *self.r.pick(&[1usize, 1, 1, 2, 3, 4]);
                for d in 0..nd {
                    self.sym("[");
                    self.num("0");
                    self.sym(":");
                    self.num(if d == 0 { "3" } else { "1" });
                    self.sym("]");
                }
            } else if self.r.chance(1, 5) && t != "string" && t != "real" {
                self.sym("=");
                self.nump(&["0", "1", "'0"]);
            }
            if t != "string" && t != "real" && t != "time" {
                names.push(v);
            }
        }
        self.sym(";");
    }

    fn typedef_decl(&mut self) {
        self.cnt("typedef");
        let t = self.fresh(false);
        self.kw("typedef");
        match self.r.below(3) {
            0 => {
                self.kwp(&["logic", "bit", "int"]);
                if self.r.chance(1, 2) && self.toks.last().unwrap().text != "int" {
                    self.range();
                }
            }
            1 => {
                self.kw("enum");
                if self.r.chance(1, 2) {
                    self.kw("logic");
                    self.range();
                }
                self.sym("{");
                let k = self.r.range(1, 3);
                for i in 0..k {
                    if i > 0 {
                        self.sym(",");
                    }
                    let e = self.fresh(false);
                    self.id(&e);
                    self.fact("EnumNameDeclaration", &e);
                    if self.r.chance(1, 3) {
                        self.sym("=");
                        self.num(&format!("{}", i));
                    }
                }
                self.sym("}");
            }
            _ => {
                self.kw("struct");
                if self.r.chance(1, 2) {
                    self.kw("packed");
                }
                self.sym("{");
                let k = self.r.range(1, 3);
                for _ in 0..k {
                    self.kwp(&["logic", "bit"]);
                    if self.r.chance(1, 2) {
                        self.range();
                    }
                    let f = self.fresh(false);
                    self.id(&f);
                    self.fact("VariableDeclAssignment", &f);
                    self.sym(";");
                }
                self.sym("}");
            }
        }
        self.decl(&t, "typedef");
        self.fact("TypeDeclaration", &t);
        self.sym(";");
        self.typedefs.push(t);
    }

    fn param_decl(&mut self, params: &mut Vec<String>, local: bool) {
        self.cnt("param_decl");
        self.kw(if local { "localparam" } else { "parameter" });
        match self.r.below(4) {
            0 => self.kw("int"),
            1 => self.range(),
            2 => {
                self.kw("logic");
                self.range()
            }
            _ => {}
        }
        let n = self.r.range(1, 2);
        for i in 0..n {
            if i > 0 {
                self.sym(",");
            }
            let p = self.fresh(false);
            self.decl(&p, "param");
            self.fact("ParamAssignment", &p);
            self.sym("=");
            let pp = params.clone();
            self.const_expr(&pp);
            params.push(p);
        }
        self.sym(";");
    }

    fn cont_assign(&mut self, names: &[String]) {
        self.cnt("cont_assign");
        self.kw("assign");
        if self.r.chance(1, 6) {
            self.sym("#");
            self.num("1");
        }
        let n = self.r.range(1, 2);
        for i in 0..n {
            if i > 0 {
                self.sym(",");
            }
            let lv = self.r.pick(names).clone();
            self.id(&lv);
            self.fact("NetAssignment", &lv);
            if self.r.chance(1, 6) {
                self.sym("[");
                self.num("0");
                self.sym("]");
            }
            self.sym("=");
            self.expr(names, 0);
        }
        self.sym(";");
    }

    fn proc_block(&mut self, names: &[String], kind: &str) {
        self.cnt("proc_block");
        // A.1.7: a program admits initial and final constructs only
        let sel = if kind == "program" { *self.r.pick(&[3usize, 6]) } else { self.r.below(7) };
        match sel {
            0 => {
                self.kw("always");
                self.sym("@");
                self.sym("(");
                self.sym("*");
                self.sym(")");
            }
            1 => {
                self.kw("always");
                self.sym("@*");
            }
            2 => self.kw("always_comb"),
            3 => self.kw("initial"),
            4 => {
                self.kw("always_ff");
                self.sym("@");
                self.sym("(");
                self.kw("posedge");
                self.lvalue(names);
                if self.r.chance(1, 2) {
                    self.kw("or");
                    self.kw("negedge");
                    self.lvalue(names);
                }
                self.sym(")");
            }
            5 => self.kw("always_latch"),
            _ => self.kw("final"),
        }
        let null_ok = sel == 3;
        self.stmt_x(names, 0, null_ok);
    }

    fn instance(&mut self, names: &[String], in_interface: bool) {
        if self.mods.is_empty() {
            return;
        }
        self.cnt("instantiation");
        let mi = self.r.below(self.mods.len());
        let (mname, mports, mparams, is_if) = {
            let m = &self.mods[mi];
            (m.name.clone(), m.ports.clone(), m.params.clone(), m.is_interface)
        };
        self.id(&mname);
        if in_interface {
            // A.1.6: interface_or_generate_item has no module_instantiation; `id id (...);` derives interface_instantiation
            self.fact_alt("InterfaceInstantiation", &mname, "ProgramInstantiation");
        } else if is_if {
            self.fact_alt("ModuleInstantiation", &mname, "InterfaceInstantiation");
        } else {
            self.fact("ModuleInstantiation", &mname);
        }
        if !mparams.is_empty() && self.r.chance(1, 2) {
            self.sym("#");
            self.sym("(");
            if self.r.chance(1, 2) {
                for (i, p) in mparams.iter().enumerate() {
                    if i > 0 {
                        self.sym(",");
                    }
                    self.sym(".");
                    self.id(p);
                    self.sym("(");
                    self.nump(&["1", "4"]);
                    self.sym(")");
                }
            } else {
                self.num("2");
            }
            self.sym(")");
        }
        let k = self.r.range(1, 2);
        for j in 0..k {
            if j > 0 {
                self.sym(",");
            }
            let inst = self.fresh(true);
            self.decl(&inst, "inst");
            self.fact("HierarchicalInstance", &inst);
            if self.r.chance(1, 6) {
                self.range();
            }
            self.sym("(");
            let style = self.r.below(10);
            if style < 4 {
                for (i, p) in mports.iter().enumerate() {
                    if i > 0 {
                        self.sym(",");
                    }
                    self.sym(".");
                    self.id(p);
                    if self.r.chance(4, 5) {
                        self.sym("(");
                        if !names.is_empty() && self.r.chance(4, 5) {
                            self.expr(names, 1);
                        }
                        self.sym(")");
                    }
                }
            } else if style < 8 {
                for i in 0..mports.len() {
                    if i > 0 {
                        self.sym(",");
                    }
                    if names.is_empty() {
                        self.num("1");
                    } else {
                        self.expr(names, 1);
                    }
                }
            } else {
                self.sym(".*");
            }
            self.sym(")");
        }
        self.sym(";");
    }

    fn function_decl(&mut self) {
        self.cnt("function");
        let f = self.fresh(false);
        let a = self.fresh(false);
        self.kw("function");
        if self.r.chance(1, 3) {
            self.kw("automatic");
        }
        match self.r.below(4) {
            0 => self.kw("int"),
            1 => {
                self.kw("logic");
                self.range()
            }
            2 => self.kw("bit"),
            _ => self.kw("void"),
        }
        let is_void = self.toks.last().unwrap().text == "void";
        self.decl(&f, "func");
        self.fact("FunctionDeclaration", &f);
        let ansi = self.r.chance(2, 3);
        if ansi {
            self.sym("(");
            self.kw("input");
            self.kwp(&["int", "logic", "bit"]);
            self.decl(&a, "tfport");
            self.fact("TfPortItem", &a);
            self.sym(")");
            self.sym(";");
        } else {
            self.sym(";");
            self.kw("input");
            self.kw("int");
            self.decl(&a, "tfport");
            self.fact("TfPortDeclaration", &a);
            self.sym(";");
        }
        let names = vec![a.clone()];
        if self.opts.k6_safe {
            self.sym(";");
        }
        if !is_void {
            if self.r.chance(1, 2) {
                self.id(&f);
                self.sym("=");
                self.expr(&names, 1);
                self.sym(";");
                if !self.opts.k6_safe {
                    self.k6_names.push(f.clone());
                }
            } else {
                self.kw("return");
                self.expr(&names, 1);
                self.sym(";");
            }
        }
        self.kw("endfunction");
        if self.r.chance(1, 4) {
            self.sym(":");
            self.id(&f);
        }
    }

    fn task_decl(&mut self) {
        self.cnt("task");
        let t = self.fresh(false);
        let a = self.fresh(false);
        self.kw("task");
        if self.r.chance(1, 3) {
            self.kw("automatic");
        }
        self.decl(&t, "task");
        self.fact("TaskDeclaration", &t);
        self.sym("(");
        self.kwp(&["output", "input", "inout"]);
        self.kw("int");
        self.decl(&a, "tfport");
        self.fact("TfPortItem", &a);
        self.sym(")");
        self.sym(";");
        let names = vec![a.clone()];
        let n = self.r.range(0, 2);
        self.block_body(&names, 0, n);
        self.kw("endtask");
        if self.r.chance(1, 4) {
            self.sym(":");
            self.id(&t);
        }
    }

    fn generate_construct(&mut self, names: &[String], params: &[String]) {
        self.cnt("generate");
        let wrap = self.r.chance(1, 2);
        if wrap {
            self.kw("generate");
        }
        match self.r.below(3) {
            0 => {
                let gv = self.fresh(false);
                self.kw("for");
                self.sym("(");
                self.kw("genvar");
                self.id(&gv);
                self.sym("=");
                self.num("0");
                self.sym(";");
                self.id(&gv);
                self.sym("<");
                self.num("4");
                self.sym(";");
                self.id(&gv);
                self.sym("=");
                self.id(&gv);
                self.sym("+");
                self.num("1");
                self.sym(")");
                self.kw("begin");
                let l = self.fresh(false);
                self.sym(":");
                self.decl(&l, "label");
                self.fact("GenerateBlockIdentifier", &l);
                if !names.is_empty() {
                    self.cont_assign(names);
                }
                self.kw("end");
                self.fact("LoopGenerateConstruct", "");
            }
            1 => {
                self.kw("if");
                self.sym("(");
                self.const_expr(params);
                self.sym(")");
                self.kw("begin");
                if self.r.chance(1, 2) {
                    let l = self.fresh(false);
                    self.sym(":");
                    self.decl(&l, "label");
                    self.fact("GenerateBlockIdentifier", &l);
                }
                if !names.is_empty() {
                    self.cont_assign(names);
                }
                self.kw("end");
                if self.r.chance(1, 2) {
                    self.kw("else");
                    self.kw("begin");
                    self.kw("end");
                }
                self.fact("IfGenerateConstruct", "");
            }
            _ => {
                self.kw("case");
                self.sym("(");
                self.const_expr(params);
                self.sym(")");
                self.num("1");
                self.sym(":");
                self.kw("begin");
                self.kw("end");
                self.kw("default");
                self.sym(":");
                self.kw("begin");
                self.kw("end");
                self.kw("endcase");
                self.fact("CaseGenerateConstruct", "");
            }
        }
        if wrap {
            self.kw("endgenerate");
        }
    }

    fn genvar_decl(&mut self) {
        self.cnt("genvar");
        self.kw("genvar");
        let n = self.r.range(1, 2);
        for i in 0..n {
            if i > 0 {
                self.sym(",");
            }
            let g = self.fresh(false);
            self.decl(&g, "genvar");
            self.fact("GenvarIdentifier", &g);
        }
        self.sym(";");
    }

    fn user_type_decl(&mut self, names: &mut Vec<String>, nonansi: bool) {
        if self.typedefs.is_empty() {
            return;
        }
        self.cnt("user_type_decl");
        let t = self.r.pick(&self.typedefs).clone();
        self.id(&t);
        let v = self.fresh(false);
        self.decl(&v, "var");
        self.fact_alt("VariableDeclAssignment", &v, "NetDeclAssignment");
        if nonansi {
            // A.2.1.2 interface_port_declaration ::= interface_identifier list_of_interface_identifiers
            // is a port_declaration, which non-ANSI bodies admit
            self.alt.push((Fact { kind: "VariableDeclAssignment", name: v.clone() }, "InterfacePortDeclaration"));
        }
        self.sym(";");
        let _ = names;
    }

    /// further module items of A.1.4 / A.3 / A.2
    fn item_extra(&mut self, names: &mut Vec<String>, params: &mut Vec<String>, kind: &str) {
        if kind == "module" && names.len() >= 2 && self.r.chance(1, 6) {
            // A.4.1.4 checker_instantiation: `id id ( ... )` whose connections include a sequence / property
            // expression can only be a checker instantiation
            self.cnt("checker_instantiation");
            let c = self.fresh(false);
            let inst = self.fresh(false);
            self.id(&c);
            self.fact("CheckerInstantiation", &c);
            self.decl(&inst, "inst");
            self.sym("(");
            let n = self.r.range(0, 6);
            for _ in 0..n {
                let a = self.r.pick(names).clone();
                self.id(&a);
                self.sym(",");
            }
            let (a, b) = (self.r.pick(names).clone(), self.r.pick(names).clone());
            match self.r.below(3) {
                0 => {
                    self.sym("(");
                    self.id(&a);
                    self.sym("##");
                    self.num("1");
                    self.id(&b);
                    self.sym(")");
                }
                1 => {
                    self.id(&a);
                    self.sym("##");
                    self.num("2");
                    self.id(&b);
                }
                _ => {
                    self.id(&a);
                    self.sym("|->");
                    self.id(&b);
                }
            }
            self.sym(")");
            self.sym(";");
            return;
        }
        if (kind == "module" || kind == "interface") && names.len() >= 2 && self.r.chance(1, 6) {
            let (a, b) = (names[0].clone(), names[1].clone());
            match self.r.below(4) {
                0 => {
                    self.cnt("concurrent_assertion");
                    if self.r.chance(1, 2) {
                        let l = self.fresh(false);
                        self.id(&l);
                        self.fact("BlockIdentifier", &l);
                        self.sym(":");
                    }
                    self.kwp(&["assert", "assume", "cover"]);
                    self.kw("property");
                    self.sym("(");
                    self.sym("@");
                    self.sym("(");
                    self.kw("posedge");
                    self.id(&a);
                    self.sym(")");
                    self.id(&a);
                    self.symp(&["|->", "|=>"]);
                    self.sym("##");
                    self.num("1");
                    self.id(&b);
                    self.sym(")");
                    self.sym(";");
                }
                1 => {
                    self.cnt("property_decl");
                    let p = self.fresh(false);
                    self.kw("property");
                    self.decl(&p, "property");
                    self.fact("PropertyDeclaration", &p);
                    self.sym(";");
                    self.sym("@");
                    self.sym("(");
                    self.kw("posedge");
                    self.id(&a);
                    self.sym(")");
                    self.id(&b);
                    self.sym("|->");
                    self.id(&a);
                    self.sym(";");
                    self.kw("endproperty");
                }
                2 => {
                    self.cnt("sequence_decl");
                    let q = self.fresh(false);
                    self.kw("sequence");
                    self.decl(&q, "sequence");
                    self.fact("SequenceDeclaration", &q);
                    self.sym(";");
                    self.id(&a);
                    self.sym("##");
                    self.sym("[");
                    self.num("1");
                    self.sym(":");
                    self.num("3");
                    self.sym("]");
                    self.id(&b);
                    self.sym(";");
                    self.kw("endsequence");
                }
                _ => {
                    self.cnt("clocking");
                    let c = self.fresh(false);
                    if self.r.chance(1, 3) {
                        self.kw("default");
                    }
                    self.kw("clocking");
                    self.decl(&c, "clocking");
                    self.fact("ClockingDeclaration", &c);
                    self.sym("@");
                    self.sym("(");
                    self.kw("posedge");
                    self.id(&a);
                    self.sym(")");
                    self.sym(";");
                    self.kw("input");
                    self.id(&b);
                    self.sym(";");
                    self.kw("endclocking");
                }
            }
            return;
        }
        match self.r.below(8) {
            0 => {
                self.cnt("enum_var");
                self.kw("enum");
                self.sym("{");
                let k = self.r.range(1, 3);
                for i in 0..k {
                    if i > 0 {
                        self.sym(",");
                    }
                    let e = self.fresh(false);
                    self.id(&e);
                    self.fact("EnumNameDeclaration", &e);
                }
                self.sym("}");
                let v = self.fresh(false);
                self.decl(&v, "var");
                self.fact("VariableDeclAssignment", &v);
                self.sym(";");
            }
            1 => {
                self.cnt("struct_var");
                self.kwp(&["struct", "union"]);
                if self.r.chance(1, 2) {
                    self.kw("packed");
                }
                self.sym("{");
                for _ in 0..self.r.range(1, 2) {
                    self.kwp(&["logic", "bit", "int"]);
                    let f = self.fresh(false);
                    self.id(&f);
                    self.fact("VariableDeclAssignment", &f);
                    self.sym(";");
                }
                self.sym("}");
                let v = self.fresh(false);
                self.decl(&v, "var");
                self.fact("VariableDeclAssignment", &v);
                self.sym(";");
                names.push(v);
            }
            2 if kind == "module" => {
                self.cnt("gate");
                self.kwp(&["and", "or", "nand", "nor", "xor", "xnor"]);
                if self.r.chance(1, 2) {
                    let g = self.fresh(false);
                    self.id(&g);
                }
                self.sym("(");
                let a = if names.is_empty() { "x".to_string() } else { self.r.pick(names).clone() };
                self.id(&a);
                self.sym(",");
                self.id(&a);
                self.sym(",");
                self.id(&a);
                self.sym(")");
                self.sym(";");
            }
            3 if kind == "module" => {
                self.cnt("buf_pull");
                match self.r.below(3) {
                    0 => {
                        self.kwp(&["buf", "not"]);
                        self.sym("(");
                        self.id("o");
                        self.sym(",");
                        self.id("i");
                        self.sym(")");
                    }
                    1 => {
                        self.kwp(&["pullup", "pulldown"]);
                        self.sym("(");
                        self.id("o");
                        self.sym(")");
                    }
                    _ => {
                        self.kwp(&["bufif0", "notif1"]);
                        self.sym("(");
                        self.id("o");
                        self.sym(",");
                        self.id("i");
                        self.sym(",");
                        self.id("e");
                        self.sym(")");
                    }
                }
                self.sym(";");
            }
            4 => {
                self.cnt("attribute_item");
                self.sym("(*");
                let a = self.fresh(false);
                self.id(&a);
                if self.r.chance(1, 2) {
                    self.sym("=");
                    self.num("1");
                }
                self.sym("*)");
                self.var_decl(names);
            }
            5 => {
                self.cnt("type_param");
                self.kwp(&["parameter", "localparam"]);
                self.kw("type");
                let t = self.fresh(false);
                self.decl(&t, "typedef");
                self.fact("TypeAssignment", &t);
                self.sym("=");
                self.kwp(&["int", "logic", "bit"]);
                self.sym(";");
                let _ = params;
            }
            6 if kind == "module" => {
                self.cnt("defparam");
                self.kw("defparam");
                let a = self.fresh(false);
                let b = self.fresh(false);
                self.id(&a);
                self.sym(".");
                self.id(&b);
                self.sym("=");
                self.num("3");
                self.sym(";");
            }
            _ => {
                self.cnt("const_var");
                self.kw("const");
                self.kwp(&["int", "logic", "bit"]);
                let v = self.fresh(false);
                self.decl(&v, "var");
                self.fact("VariableDeclAssignment", &v);
                self.sym("=");
                self.num("1");
                self.sym(";");
            }
        }
    }

    fn module_items(&mut self, names: &mut Vec<String>, params: &mut Vec<String>, kind: &str, nonansi: bool) {
        let n = self.r.range(1, self.opts.max_items);
        for _ in 0..n {
            if self.r.chance(1, 8) {
                self.item_extra(names, params, kind);
                continue;
            }
            let k = self.r.below(100);
            if k < 14 {
                if kind == "program" || kind == "package" {
                    self.var_decl(names);
                } else {
                    self.net_decl(names);
                }
            } else if k < 28 {
                self.var_decl(names);
            } else if k < 35 {
                self.param_decl(params, true);
            } else if k < 47 && !names.is_empty() && kind != "package" {
                self.cont_assign(names);
            } else if k < 62 && !names.is_empty() && kind != "package" {
                let nn = names.clone();
                self.proc_block(&nn, kind);
            } else if k < 72 && kind != "package" && kind != "program" {
                let nn = names.clone();
                self.instance(&nn, kind == "interface");
            } else if k < 79 {
                self.function_decl();
            } else if k < 84 {
                self.task_decl();
            } else if k < 89 {
                self.typedef_decl();
            } else if k < 93 && kind == "module" {
                let nn = names.clone();
                let pp = params.clone();
                self.generate_construct(&nn, &pp);
            } else if k < 95 && kind == "module" {
                self.genvar_decl();
            } else if k < 98 {
                self.user_type_decl(names, nonansi);
            } else if !self.packages.is_empty() {
                let (p, items) = self.r.pick(&self.packages).clone();
                self.kw("import");
                self.id(&p);
                self.sym("::");
                if items.is_empty() || self.r.chance(1, 2) {
                    self.sym("*");
                } else {
                    let it = self.r.pick(&items).clone();
                    self.id(&it);
                }
                self.sym(";");
                self.fact("PackageImportDeclaration", &p);
            }
        }
    }

    fn param_port_list(&mut self, params: &mut Vec<String>) {
        self.sym("#");
        self.sym("(");
        let n = self.r.range(1, 3);
        for i in 0..n {
            if i > 0 {
                self.sym(",");
            }
            if i == 0 || self.r.chance(1, 2) {
                self.kw("parameter");
                match self.r.below(3) {
                    0 => self.kw("int"),
                    1 => self.range(),
                    _ => {}
                }
            } else if self.r.chance(1, 2) {
                // parameter_port_declaration ::= data_type list_of_param_assignments (explicit type only)
                self.kw("int");
            }
            let p = self.fresh(false);
            self.decl(&p, "param");
            self.fact("ParamAssignment", &p);
            self.sym("=");
            self.nump(&["1", "8", "2"]);
            params.push(p);
        }
        self.sym(")");
    }

    fn module_like(&mut self, kw: &'static str) {
        let endkw = match kw {
            "module" | "macromodule" => "endmodule",
            "interface" => "endinterface",
            _ => "endprogram",
        };
        let kind = if kw == "macromodule" { "module" } else { kw };
        let name = self.fresh(false);
        let nports = self.r.range(0, 4);
        let ansi = self.r.chance(3, 5);
        if self.r.chance(1, 8) {
            // A.1.2: { attribute_instance } in front of the design element
            self.sym("(*");
            let a = self.fresh(false);
            self.id(&a);
            if self.r.chance(1, 2) {
                self.sym("=");
                self.num("1");
            }
            self.sym("*)");
        }
        self.kw(kw);
        if self.r.chance(1, 8) {
            self.kwp(&["automatic", "static"]);
        }
        self.decl(&name, "module");
        let (fa, fn_) = match kind {
            "module" => ("ModuleDeclarationAnsi", "ModuleDeclarationNonansi"),
            "interface" => ("InterfaceDeclarationAnsi", "InterfaceDeclarationNonansi"),
            _ => ("ProgramDeclarationAnsi", "ProgramDeclarationNonansi"),
        };
        let mut params = Vec::new();
        let mut names: Vec<String> = Vec::new();
        let mut ports = Vec::new();
        if kind != "program" && self.r.chance(1, 12) {
            // A.1.2: module_keyword [lifetime] module_identifier ( .* ) ; {module_item} endmodule [: id]
            self.fact(if kind == "module" { "ModuleDeclarationWildcard" } else { "InterfaceDeclarationWildcard" }, &name);
            self.sym("(");
            self.sym(".*");
            self.sym(")");
            self.sym(";");
            // the body is made of module_items, which admit port declarations (A.1.4)
            self.module_items(&mut names, &mut params, kind, true);
            self.kw(endkw);
            if self.r.chance(2, 3) {
                self.sym(":");
                self.id(&name);
            }
            self.mods.push(ModInfo { name, ports, params, is_interface: kind == "interface" });
            return;
        }
        if !self.packages.is_empty() && self.r.chance(1, 6) {
            // A.1.2: package_import_declaration between the identifier and the parameter port list (not in the `( .* )` form)
            let (p, _) = self.r.pick(&self.packages).clone();
            self.kw("import");
            self.id(&p);
            self.sym("::");
            self.sym("*");
            self.sym(";");
            self.fact("PackageImportDeclaration", &p);
        }
        let has_params = self.r.chance(1, 2);
        if has_params {
            self.param_port_list(&mut params);
        }
        if ansi {
            if nports == 0 {
                // `( )` derives from both port list forms; no list at all is the ANSI form only with params... keep both admissible
                if self.r.chance(1, 2) {
                    self.sym("(");
                    self.sym(")");
                }
                self.fact_alt(fa, &name, fn_);
            } else {
                self.fact(fa, &name);
                self.sym("(");
                for i in 0..nports {
                    if i > 0 {
                        self.sym(",");
                    }
                    let ifs: Vec<String> = self.mods.iter().filter(|m| m.is_interface).map(|m| m.name.clone()).collect();
                    if !ifs.is_empty() && self.r.chance(1, 6) {
                        // interface port: interface_identifier [ . modport_identifier ] port_identifier
                        let ifn = self.r.pick(&ifs).clone();
                        let p = self.fresh(false);
                        self.id(&ifn);
                        if self.r.chance(1, 2) {
                            self.sym(".");
                            let mp = self.fresh(false);
                            self.id(&mp);
                        }
                        self.decl(&p, "port");
                        self.fact("AnsiPortDeclaration", &p);
                        continue;
                    }
                    let p = self.fresh(true);
                    let dir = *self.r.pick(&["input", "output", "inout"]);
                    self.kw(dir);
                    match self.r.below(6) {
                        0 => {}
                        1 => self.kw("wire"),
                        2 => self.kw("logic"),
                        3 => {
                            if dir == "output" {
                                self.kw("reg")
                            }
                        }
                        4 => {
                            self.kw("wire");
                            self.kw("logic")
                        }
                        _ => {
                            if dir != "inout" {
                                self.kw("var");
                                self.kw("logic")
                            }
                        }
                    }
                    if self.r.chance(1, 2) {
                        self.range();
                    }
                    self.decl(&p, "port");
                    self.fact("AnsiPortDeclaration", &p);
                    ports.push(p);
                }
                self.sym(")");
            }
            self.sym(";");
        } else {
            let np = nports.max(1);
            self.fact(fn_, &name);
            self.sym("(");
            for i in 0..np {
                if i > 0 {
                    self.sym(",");
                }
                let p = self.fresh(true);
                self.id(&p);
                ports.push(p);
            }
            self.sym(")");
            self.sym(";");
            for p in ports.clone() {
                let d = *self.r.pick(&["input", "output", "inout"]);
                self.kw(d);
                if self.r.chance(1, 3) {
                    self.range();
                }
                self.decl(&p, "port");
                self.fact(
                    match d {
                        "input" => "InputDeclaration",
                        "output" => "OutputDeclaration",
                        _ => "InoutDeclaration",
                    },
                    &p,
                );
                self.sym(";");
            }
        }
        names.extend(ports.iter().cloned());
        if kind == "interface" && !names.is_empty() && self.r.chance(1, 2) {
            let mp = self.fresh(false);
            self.kw("modport");
            self.decl(&mp, "modport");
            self.fact("ModportItem", &mp);
            self.sym("(");
            self.kw("input");
            let a = names[0].clone();
            self.id(&a);
            self.sym(")");
            self.sym(";");
        }
        self.module_items(&mut names, &mut params, kind, !ansi);
        self.kw(endkw);
        if self.r.chance(1, 3) {
            self.sym(":");
            self.id(&name);
        }
        if kind != "program" {
            self.mods.push(ModInfo { name, ports, params, is_interface: kind == "interface" });
        }
    }

    fn package(&mut self) {
        let name = self.fresh(false);
        self.kw("package");
        self.decl(&name, "package");
        self.fact("PackageDeclaration", &name);
        self.sym(";");
        let mut names = Vec::new();
        let mut params = Vec::new();
        let before = self.facts.len();
        self.module_items(&mut names, &mut params, "package", false);
        let items: Vec<String> =
            self.facts[before..].iter().filter(|f| f.kind == "ParamAssignment" || f.kind == "TypeDeclaration").map(|f| f.name.clone()).collect();
        self.kw("endpackage");
        if self.r.chance(1, 3) {
            self.sym(":");
            self.id(&name);
        }
        self.packages.push((name, items));
    }

    fn class(&mut self) {
        let name = self.fresh(false);
        if self.r.chance(1, 6) {
            self.kw("virtual");
        }
        self.kw("class");
        self.decl(&name, "class");
        self.fact("ClassDeclaration", &name);
        if self.r.chance(1, 4) {
            self.sym("#");
            self.sym("(");
            self.kw("parameter");
            self.kw("int");
            let p = self.fresh(false);
            self.decl(&p, "param");
            self.fact("ParamAssignment", &p);
            self.sym("=");
            self.num("1");
            self.sym(")");
        }
        let classes: Vec<String> = self.facts.iter().filter(|f| f.kind == "ClassDeclaration" && f.name != name).map(|f| f.name.clone()).collect();
        if !classes.is_empty() && self.r.chance(1, 3) {
            let b = self.r.pick(&classes).clone();
            self.kw("extends");
            self.id(&b);
        }
        self.sym(";");
        let n = self.r.range(0, 4);
        let mut props: Vec<String> = Vec::new();
        for _ in 0..n {
            match self.r.below(4) {
                3 => {
                    // constraint block over a (possibly undeclared) random variable
                    let c = self.fresh(false);
                    let v = if props.is_empty() { self.fresh(false) } else { self.r.pick(&props).clone() };
                    self.kw("constraint");
                    self.decl(&c, "constraint");
                    self.fact("ConstraintDeclaration", &c);
                    self.sym("{");
                    self.id(&v);
                    self.symp(&[">", "<", "==", "inside"]);
                    if self.toks.last().unwrap().text == "inside" {
                        self.toks.last_mut().unwrap().kind = TK::Kw;
                        self.sym("{");
                        self.num("1");
                        self.sym(",");
                        self.num("2");
                        self.sym("}");
                    } else {
                        self.num("3");
                    }
                    self.sym(";");
                    self.sym("}");
                }
                0 => {
                    if self.r.chance(1, 3) {
                        self.kwp(&["rand", "local", "protected", "static"]);
                    }
                    self.kwp(&["int", "bit", "logic"]);
                    let v = self.fresh(false);
                    self.decl(&v, "var");
                    self.fact("VariableDeclAssignment", &v);
                    self.sym(";");
                    props.push(v);
                }
                1 => {
                    self.function_decl();
                }
                _ => {
                    self.kw("function");
                    self.kw("new");
                    self.sym("(");
                    self.sym(")");
                    self.sym(";");
                    self.kw("endfunction");
                    if self.r.chance(1, 2) {
                        self.sym(":");
                        self.kw("new");
                    }
                }
            }
        }
        self.kw("endclass");
        if self.r.chance(1, 3) {
            self.sym(":");
            self.id(&name);
        }
    }
}

// ------------------------------------------------------------------ Verilog-1995 subset (C13 regions)

impl<'r> G<'r> {
    fn v95_expr(&mut self, names: &[String], d: usize) {
        let k = self.r.below(100);
        if d > 2 || k < 40 || names.is_empty() {
            if !names.is_empty() && self.r.chance(1, 2) {
                let n = self.r.pick(names).clone();
                self.id(&n);
            } else {
                self.nump(&["1", "0", "8'hFF", "4'b1x0z", "'d3", "12"]);
            }
        } else if k < 75 {
            self.v95_expr(names, d + 1);
            self.symp(&["+", "-", "*", "&", "|", "^", "==", "!=", "<", ">=", "&&", "||", "<<", ">>"]);
            self.v95_expr(names, d + 1);
        } else if k < 85 {
            self.sym("(");
            self.v95_expr(names, d + 1);
            self.sym(")");
        } else if k < 93 {
            self.sym("{");
            self.v95_expr(names, d + 1);
            self.sym(",");
            self.v95_expr(names, d + 1);
            self.sym("}");
        } else {
            self.symp(&["~", "!", "-", "&", "|"]);
            let n = self.r.pick(names).clone();
            self.id(&n);
        }
    }

    fn v95_stmt(&mut self, names: &[String], d: usize) {
        let k = self.r.below(100);
        if d > 2 || k < 35 {
            let n = self.r.pick(names).clone();
            self.id(&n);
            self.symp(&["=", "<="]);
            self.v95_expr(names, 1);
            self.sym(";");
        } else if k < 50 {
            self.kw("if");
            self.sym("(");
            self.v95_expr(names, 1);
            self.sym(")");
            self.v95_stmt(names, d + 1);
            if self.r.chance(1, 2) {
                self.kw("else");
                self.v95_stmt(names, d + 1);
            }
        } else if k < 65 {
            self.kw("begin");
            if self.r.chance(1, 2) {
                let l = self.fresh(false);
                self.sym(":");
                self.decl(&l, "label");
            }
            // K6 steering: a `$display` first
            self.kw("$display");
            self.sym("(");
            self.st("\"v\"");
            self.sym(")");
            self.sym(";");
            let n = self.r.range(0, 2);
            for _ in 0..n {
                self.v95_stmt(names, d + 1);
            }
            self.kw("end");
        } else if k < 75 {
            self.kwp(&["case", "casez", "casex"]);
            self.sym("(");
            self.v95_expr(names, 1);
            self.sym(")");
            self.num("0");
            self.sym(":");
            self.v95_stmt(names, d + 1);
            self.kw("default");
            self.sym(":");
            self.v95_stmt(names, d + 1);
            self.kw("endcase");
        } else if k < 82 {
            self.kw("while");
            self.sym("(");
            self.v95_expr(names, 1);
            self.sym(")");
            self.v95_stmt(names, d + 1);
        } else if k < 88 {
            self.kw("repeat");
            self.sym("(");
            self.num("2");
            self.sym(")");
            self.v95_stmt(names, d + 1);
        } else if k < 94 {
            self.sym("#");
            self.num("1");
            self.v95_stmt(names, d + 1);
        } else {
            self.kw("forever");
            self.sym("#");
            self.num("1");
            self.v95_stmt(names, d + 1);
        }
    }

    /// one module in the IEEE 1364-1995 subset (valid under every keyword set)
    fn v95_module(&mut self) {
        let name = self.fresh(false);
        self.kw("module");
        self.decl(&name, "module");
        let np = self.r.range(1, 3);
        let mut ports = Vec::new();
        self.sym("(");
        for i in 0..np {
            if i > 0 {
                self.sym(",");
            }
            let p = self.fresh(false);
            self.id(&p);
            ports.push(p);
        }
        self.sym(")");
        self.sym(";");
        for p in ports.clone() {
            self.kwp(&["input", "output", "inout"]);
            if self.r.chance(1, 3) {
                self.range();
            }
            self.decl(&p, "port");
            self.sym(";");
        }
        let mut names = ports.clone();
        let mut regs: Vec<String> = Vec::new();
        let n = self.r.range(2, 7);
        for _ in 0..n {
            let k = self.r.below(100);
            if k < 18 {
                self.kwp(&["wire", "tri", "wand", "wor", "tri0", "tri1", "supply0", "supply1"]);
                if self.r.chance(1, 2) {
                    self.range();
                }
                let w = self.fresh(false);
                self.decl(&w, "net");
                self.sym(";");
                names.push(w);
            } else if k < 36 {
                self.kwp(&["reg", "integer"]);
                let v = self.fresh(false);
                self.decl(&v, "var");
                self.sym(";");
                names.push(v.clone());
                regs.push(v);
            } else if k < 44 {
                self.kw("parameter");
                let p = self.fresh(false);
                self.decl(&p, "param");
                self.sym("=");
                self.num("4");
                self.sym(";");
            } else if k < 58 {
                self.kw("assign");
                let n = self.r.pick(&names).clone();
                self.id(&n);
                self.sym("=");
                self.v95_expr(&names, 0);
                self.sym(";");
            } else if k < 76 {
                if self.r.chance(1, 2) {
                    self.kw("always");
                    self.sym("@");
                    self.sym("(");
                    self.kwp(&["posedge", "negedge"]);
                    let n = self.r.pick(&names).clone();
                    self.id(&n);
                    self.sym(")");
                } else {
                    self.kw("initial");
                }
                let nn = names.clone();
                self.v95_stmt(&nn, 0);
            } else if k < 86 && !self.mods.is_empty() {
                let mi = self.r.below(self.mods.len());
                let (m, mp) = (self.mods[mi].name.clone(), self.mods[mi].ports.clone());
                self.id(&m);
                let inst = self.fresh(false);
                self.decl(&inst, "inst");
                self.sym("(");
                for (i, p) in mp.iter().enumerate() {
                    if i > 0 {
                        self.sym(",");
                    }
                    self.sym(".");
                    self.id(p);
                    self.sym("(");
                    let nn = names.clone();
                    self.v95_expr(&nn, 1);
                    self.sym(")");
                }
                self.sym(")");
                self.sym(";");
            } else if k < 93 {
                let f = self.fresh(false);
                let a = self.fresh(false);
                self.kw("function");
                self.range();
                self.decl(&f, "func");
                self.sym(";");
                self.kw("input");
                self.decl(&a, "tfport");
                self.sym(";");
                self.kw("begin");
                self.kw("$display");
                self.sym("(");
                self.st("\"f\"");
                self.sym(")");
                self.sym(";");
                self.id(&f);
                self.sym("=");
                self.id(&a);
                self.sym(";");
                self.kw("end");
                self.kw("endfunction");
            } else {
                let t = self.fresh(false);
                let a = self.fresh(false);
                self.kw("task");
                self.decl(&t, "task");
                self.sym(";");
                self.kw("output");
                self.decl(&a, "tfport");
                self.sym(";");
                self.kw("begin");
                self.kw("$display");
                self.sym("(");
                self.st("\"t\"");
                self.sym(")");
                self.sym(";");
                self.id(&a);
                self.sym("=");
                self.num("1");
                self.sym(";");
                self.kw("end");
                self.kw("endtask");
            }
        }
        self.kw("endmodule");
        self.mods.push(ModInfo { name, ports, params: vec![], is_interface: false });
    }
}

/// A sequence of Verilog-1995 modules; `modules[i]` = token range of module i.
pub struct V95Program {
    pub toks: Vec<TokG>,
    pub name_pos: Vec<NamePos>,
    pub module_ranges: Vec<(usize, usize)>,
}

pub fn program_v95(rng: &mut Rng, nmods: usize) -> V95Program {
    let mut g = G {
        r: rng,
        n: 0,
        toks: Vec::new(),
        facts: Vec::new(),
        alt: Vec::new(),
        name_pos: Vec::new(),
        desc_starts: Vec::new(),
        mods: Vec::new(),
        typedefs: Vec::new(),
        packages: Vec::new(),
        opts: Opts { escaped_ids: false, ..Opts::default() },
        k6_names: Vec::new(),
        desc: 0,
        counts: Default::default(),
    };
    let mut ranges = Vec::new();
    for d in 0..nmods {
        g.desc = d;
        let s = g.toks.len();
        g.v95_module();
        ranges.push((s, g.toks.len()));
    }
    V95Program { toks: g.toks, name_pos: g.name_pos, module_ranges: ranges }
}

fn glue_ok(a: &TokG, b: &TokG) -> bool {
    if a.kind == TK::EscId {
        return false;
    }
    let left_open = a.kind == TK::Sym && matches!(a.text.as_str(), "(" | "[" | "{" | "," | ";");
    let right_close = b.kind == TK::Sym && matches!(b.text.as_str(), ")" | "]" | "}" | "," | ";");
    if !(left_open || right_close) {
        return false;
    }
    // never create (* or *) or other multi-character symbols
    if a.kind == TK::Sym && b.kind == TK::Sym {
        let l = a.text.chars().last().unwrap();
        let f = b.text.chars().next().unwrap();
        if (l == '(' && f == '*') || (l == '*' && f == ')') {
            return false;
        }
        if l == f && !matches!(l, '(' | ')' | '[' | ']' | '{' | '}' | ';') {
            return false;
        }
    }
    true
}

pub fn layout_text(toks: &[TokG], r: &mut Rng, layout: Layout) -> (String, Vec<(usize, usize)>) {
    let mut text = String::new();
    let mut spans = Vec::with_capacity(toks.len());
    if layout == Layout::Random && r.chance(1, 4) {
        text.push_str(*r.pick(&["\n", "// header\n", "/* h */ ", "  "]));
    }
    for (i, t) in toks.iter().enumerate() {
        if i > 0 {
            let p = &toks[i - 1];
            match layout {
                Layout::Plain => text.push(' '),
                Layout::Random => {
                    let k = r.below(100);
                    if k < 12 && glue_ok(p, t) {
                        // nothing
                    } else {
                        let mut sep = String::new();
                        if p.kind == TK::EscId {
                            sep.push_str(*r.pick(&[" ", "\t", "\n"]));
                        } else if p.text.ends_with('/') {
                            sep.push(' ');
                        }
                        if k < 60 {
                            if sep.is_empty() {
                                sep.push(' ');
                            }
                        } else if k < 78 {
                            sep.push_str(*r.pick(&["\n", "\n  ", "\r\n", "\n\n\t"]));
                        } else if k < 84 {
                            sep.push_str(*r.pick(&["  ", "\t", " \t "]));
                        } else if k < 92 {
                            sep.push_str(*r.pick(&["/* c */", " /* é */ ", "/**/", " /* end */ "]));
                        } else {
                            sep.push_str(*r.pick(&["// c\n", " // end module ü\n", "//\n"]));
                        }
                        text.push_str(&sep);
                    }
                }
            }
        }
        let s = text.len();
        text.push_str(&t.text);
        spans.push((s, text.len()));
    }
    // trailing: an escaped identifier at the very end needs its terminator; always end with newline
    text.push('\n');
    (text, spans)
}

pub fn program(rng: &mut Rng, opts: &Opts) -> Program {
    let mut lr = rng.fork();
    let mut g = G {
        r: rng,
        n: 0,
        toks: Vec::new(),
        facts: Vec::new(),
        alt: Vec::new(),
        name_pos: Vec::new(),
        desc_starts: Vec::new(),
        mods: Vec::new(),
        typedefs: Vec::new(),
        packages: Vec::new(),
        opts: opts.clone(),
        k6_names: Vec::new(),
        desc: 0,
        counts: Default::default(),
    };
    let n = g.r.range(1, 3);
    for d in 0..n {
        g.desc = d;
        g.desc_starts.push(g.toks.len());
        // typedefs are file-scope visible only when declared at top level; reset per description
        g.typedefs.clear();
        let k = g.r.below(100);
        if k < 60 {
            let kw = if g.r.chance(1, 20) { "macromodule" } else { "module" };
            g.module_like(kw);
        } else if k < 72 {
            g.module_like("interface");
        } else if k < 80 {
            g.module_like("program");
        } else if k < 90 {
            g.package();
        } else if opts.classes {
            g.class();
        } else {
            g.module_like("module");
        }
    }
    let G { toks, facts, alt, name_pos, desc_starts, k6_names, counts, .. } = g;
    let (text, spans) = layout_text(&toks, &mut lr, opts.layout);
    Program { toks, facts, alt, name_pos, desc_starts, text, spans, k6_names, counts: counts.into_iter().collect() }
}
