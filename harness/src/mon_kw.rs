//! C13 monitor: reserved words of the keyword set in force are never identifiers.

use std::collections::{HashMap, HashSet};
use sv_parser::*;

pub struct KwTables {
    pub sets: HashMap<String, HashSet<String>>,
}

pub const VERSIONS: &[(&str, &str)] = &[
    ("1364-1995", "KEYWORDS_1364_1995"),
    ("1364-2001", "KEYWORDS_1364_2001"),
    ("1364-2001-noconfig", "KEYWORDS_1364_2001_NOCONFIG"),
    ("1364-2005", "KEYWORDS_1364_2005"),
    ("1800-2005", "KEYWORDS_1800_2005"),
    ("1800-2009", "KEYWORDS_1800_2009"),
    ("1800-2012", "KEYWORDS_1800_2012"),
    ("1800-2017", "KEYWORDS_1800_2017"),
];

impl KwTables {
    pub fn load(path: &str) -> KwTables {
        let data = std::fs::read_to_string(path).unwrap_or_else(|e| panic!("cannot read {}: {}", path, e));
        let mut sets: HashMap<String, HashSet<String>> = HashMap::new();
        for l in data.lines() {
            let mut it = l.split(' ');
            if let (Some(s), Some(w)) = (it.next(), it.next()) {
                sets.entry(s.to_string()).or_default().insert(w.to_string());
            }
        }
        let t = KwTables { sets };
        t.check_structure();
        t
    }
    /// structure the standard fixes: the chain of revisions grows monotonically, noconfig = 2001 minus config words
    fn check_structure(&self) {
        let g = |n: &str| self.sets.get(n).unwrap_or_else(|| panic!("keyword set {} missing", n));
        let chain = ["KEYWORDS_1364_1995", "KEYWORDS_1364_2001", "KEYWORDS_1364_2005", "KEYWORDS_1800_2005", "KEYWORDS_1800_2009", "KEYWORDS_1800_2012", "KEYWORDS_1800_2017"];
        for w in chain.windows(2) {
            assert!(g(w[0]).is_subset(g(w[1])), "{} is not a subset of {}", w[0], w[1]);
        }
        assert_eq!(g("KEYWORDS_1800_2012"), g("KEYWORDS_1800_2017"));
        let nc = g("KEYWORDS_1364_2001_NOCONFIG");
        let c = g("KEYWORDS_1364_2001");
        assert!(nc.is_subset(c));
        let diff: HashSet<&String> = c.difference(nc).collect();
        for w in ["config", "endconfig", "design", "instance", "cell", "liblist", "library", "use", "incdir", "include"] {
            assert!(diff.contains(&w.to_string()), "{} should distinguish 2001 from 2001-noconfig", w);
        }
        for (set, w) in [
            ("KEYWORDS_1364_2001", "generate"),
            ("KEYWORDS_1364_2005", "uwire"),
            ("KEYWORDS_1800_2005", "logic"),
            ("KEYWORDS_1800_2009", "checker"),
            ("KEYWORDS_1800_2012", "interconnect"),
        ] {
            assert!(g(set).contains(w), "{} missing from {}", w, set);
        }
        assert!(!g("KEYWORDS_1364_1995").contains("generate") && !g("KEYWORDS_1364_2005").contains("logic"));
        assert!(g("KEYWORDS_DIRECTIVE").contains("define") && g("KEYWORDS_DIRECTIVE").contains("resetall"));
    }
    pub fn set_of(&self, version: &str) -> &HashSet<String> {
        let n = VERSIONS.iter().find(|(v, _)| *v == version).map(|(_, n)| *n).unwrap_or("KEYWORDS_1800_2017");
        &self.sets[n]
    }
    pub fn directive(&self) -> &HashSet<String> {
        &self.sets["KEYWORDS_DIRECTIVE"]
    }
}

#[derive(Default, Debug)]
pub struct KwStats {
    pub identifiers: u64,
    pub macro_names: u64,
    pub regions: u64,
}

/// Walk the tree in order, maintain the version stack from KeywordsDirective / EndkeywordsDirective
/// nodes and look every simple identifier up in the set in force.
pub fn check_tree(tree: &SyntaxTree, t: &KwTables, st: &mut KwStats) -> Result<(), String> {
    let mut stack: Vec<String> = Vec::new();
    let mut in_directive = 0usize;
    let mut in_macro_name = 0usize;
    for ev in tree.into_iter().event() {
        match ev {
            NodeEvent::Enter(RefNode::CompilerDirective(_)) => in_directive += 1,
            NodeEvent::Leave(RefNode::CompilerDirective(_)) => in_directive -= 1,
            NodeEvent::Enter(RefNode::TextMacroIdentifier(_)) => in_macro_name += 1,
            NodeEvent::Leave(RefNode::TextMacroIdentifier(_)) => in_macro_name -= 1,
            NodeEvent::Leave(RefNode::KeywordsDirective(x)) => {
                // `begin_keywords "version_specifier"
                let v = tree.get_str_trim(&x.nodes.3).unwrap_or("").trim().to_string();
                st.regions += 1;
                stack.push(v);
            }
            NodeEvent::Leave(RefNode::EndkeywordsDirective(_)) => {
                stack.pop();
            }
            NodeEvent::Enter(RefNode::SimpleIdentifier(id)) => {
                let text = tree.get_str(&id.nodes.0).unwrap_or("");
                if in_directive > 0 {
                    // only macro names are claimed, against the directive-name set
                    if in_macro_name > 0 {
                        st.macro_names += 1;
                        if t.directive().contains(text) {
                            return Err(format!("macro name {:?} is a directive name", text));
                        }
                    }
                    continue;
                }
                st.identifiers += 1;
                let version = stack.last().map(|s| s.as_str()).unwrap_or("1800-2017");
                if t.set_of(version).contains(text) {
                    return Err(format!(
                        "simple identifier {:?} at offset {} is a reserved word of the keyword set in force ({})",
                        text, id.nodes.0.offset, version
                    ));
                }
            }
            _ => {}
        }
    }
    Ok(())
}
