//! Memo configuration fingerprint: the set of memoised parser names that store results when the whole
//! vendored corpus is parsed with an unbounded table.  K3/K4 are findings about the *baseline*
//! configuration (corpus/memo_parsers.txt); when the configuration differs (a #[packrat_parser] was added
//! or removed) a capacity dependence is not attributed to them.

use crate::api::*;
use crate::Env;
use std::collections::BTreeSet;
use std::sync::OnceLock;
use sv_parser_parser::verif_hooks as hooks;
use sv_parser_parser::{lib_parser, pp_parser, sv_parser, Span, SpanInfo};

pub fn observed(env: &Env) -> BTreeSet<String> {
    // on a helper thread: own thread-locals, big stack
    let progs: Vec<String> = env.corpus.programs.clone();
    let libs: Vec<String> = crate::corpus::LIB_SAMPLES.iter().map(|s| s.to_string()).chain(env.corpus.libs.iter().cloned()).collect();
    std::thread::Builder::new()
        .stack_size(1 << 28)
        .spawn(move || {
            let mut names = BTreeSet::new();
            hooks::set_capacity(None);
            for p in &progs {
                hooks::reset_memo_counters();
                let _ = lib(|| {
                    let _ = pp_parser(Span::new_extra(p.as_str(), SpanInfo::default()));
                    let _ = sv_parser(Span::new_extra(p.as_str(), SpanInfo::default()));
                });
                for n in hooks::memo_parser_names() {
                    names.insert(n.to_string());
                }
            }
            for p in &libs {
                hooks::reset_memo_counters();
                let _ = lib(|| {
                    let _ = lib_parser(Span::new_extra(p.as_str(), SpanInfo::default()));
                });
                for n in hooks::memo_parser_names() {
                    names.insert(n.to_string());
                }
            }
            names
        })
        .expect("spawn")
        .join()
        .unwrap_or_default()
}

static IS_BASELINE: OnceLock<(bool, String)> = OnceLock::new();

/// (configuration equals the vendored baseline, description of the difference)
pub fn is_baseline(env: &Env) -> &'static (bool, String) {
    IS_BASELINE.get_or_init(|| {
        let want: BTreeSet<String> = std::fs::read_to_string(format!("{}/corpus/memo_parsers.txt", env.verif))
            .unwrap_or_default()
            .lines()
            .map(|l| l.trim().to_string())
            .filter(|l| !l.is_empty())
            .collect();
        let got = observed(env);
        if got == want {
            (true, String::new())
        } else {
            let missing: Vec<&String> = want.difference(&got).take(6).collect();
            let extra: Vec<&String> = got.difference(&want).take(6).collect();
            (false, format!("memoised parsers differ from the vendored baseline: no longer storing {:?}, newly storing {:?}", missing, extra))
        }
    })
}

/// signature for a memo-caused mismatch: `sig` when the configuration is the baseline one, "" otherwise
pub fn attribute(env: &Env, sig: &str) -> (String, String) {
    if sig.is_empty() {
        return (String::new(), String::new());
    }
    let (ok, why) = is_baseline(env);
    if *ok {
        (sig.to_string(), String::new())
    } else {
        (String::new(), format!(" [{} — not attributed to {}]", why, sig))
    }
}
