//! Calls as data: one call = (entry point, input, flags); canonical result; fresh-thread re-execution.

use crate::api::*;
use crate::util::*;
use std::path::PathBuf;
use sv_parser_parser::{lib_parser, pp_parser, sv_parser, sv_parser_incomplete, Span, SpanInfo};

#[derive(Clone, Copy, Debug, PartialEq, Eq)]
pub enum Entry {
    ParseSvStr,
    ParseSvStrIncomplete,
    ParseLibStr,
    PpStr,
    PpStrStrip,
    RawSv,
    RawSvIncomplete,
    RawLib,
    RawPp,
    PpFile,
    ParseSvFile,
}

pub const ENTRIES: &[Entry] = &[
    Entry::ParseSvStr,
    Entry::ParseSvStrIncomplete,
    Entry::ParseLibStr,
    Entry::PpStr,
    Entry::PpStrStrip,
    Entry::RawSv,
    Entry::RawSvIncomplete,
    Entry::RawLib,
    Entry::RawPp,
];

#[derive(Clone, Debug)]
pub struct Call {
    pub entry: Entry,
    pub src: String,
    /// for file entries
    pub path: Option<PathBuf>,
    pub include_paths: Vec<PathBuf>,
}

impl Call {
    pub fn json(&self) -> String {
        Obj::new()
            .s("entry", &format!("{:?}", self.entry))
            .s("src", &clip(&self.src, 400))
            .s("path", &self.path.as_ref().map(|p| p.to_string_lossy().to_string()).unwrap_or_default())
            .s("include_paths", &format!("{:?}", self.include_paths))
            .done()
    }
}

#[derive(Clone, Debug, PartialEq, Eq)]
pub enum Res {
    Parse(ParseCanon),
    Pp(PpCanon),
    Raw(String),
}

impl Res {
    pub fn brief(&self) -> String {
        match self {
            Res::Parse(p) => p.brief(),
            Res::Pp(p) => p.brief(),
            Res::Raw(s) => clip(s, 200),
        }
    }
}

/// Buffer reused by raw-parser calls so that successive texts share their base address.
pub struct RawBuf {
    pub buf: String,
    pub last_ptr: usize,
    pub reuse_hits: u64,
}

impl RawBuf {
    pub fn new() -> RawBuf {
        RawBuf { buf: String::with_capacity(1 << 18), last_ptr: 0, reuse_hits: 0 }
    }
    fn fill(&mut self, s: &str) {
        self.buf.clear();
        if s.len() < (1 << 18) {
            self.buf.push_str(s);
        } else {
            self.buf.push_str(&s[..s.char_indices().take_while(|(i, _)| *i < (1 << 18) - 4).last().map(|(i, c)| i + c.len_utf8()).unwrap_or(0)]);
        }
        let p = self.buf.as_ptr() as usize;
        if p == self.last_ptr {
            self.reuse_hits += 1;
        }
        self.last_ptr = p;
    }
}

pub fn exec(c: &Call, rb: &mut RawBuf) -> Res {
    let cfg = Cfg { include_paths: c.include_paths.clone(), ..Cfg::default() };
    let path = c.path.clone().unwrap_or_else(|| PathBuf::from("h.sv"));
    match c.entry {
        Entry::ParseSvStr => Res::Parse(canon_parse(parse_str(Gram::Sv, &c.src, &path, &cfg))),
        Entry::ParseSvStrIncomplete => {
            Res::Parse(canon_parse(parse_str(Gram::Sv, &c.src, &path, &Cfg { allow_incomplete: true, ..cfg })))
        }
        Entry::ParseLibStr => Res::Parse(canon_parse(parse_str(Gram::Lib, &c.src, &path, &cfg))),
        Entry::PpStr => Res::Pp(canon_pp(pp_str(&c.src, &path, &cfg))),
        Entry::PpStrStrip => Res::Pp(canon_pp(pp_str(&c.src, &path, &Cfg { strip_comments: true, ..cfg }))),
        Entry::PpFile => Res::Pp(canon_pp(pp_file(&path, &cfg))),
        Entry::ParseSvFile => Res::Parse(canon_parse(parse_file(Gram::Sv, &path, &cfg))),
        Entry::RawSv | Entry::RawSvIncomplete | Entry::RawLib | Entry::RawPp => {
            rb.fill(&c.src);
            let text: &str = rb.buf.as_str();
            let r = lib(|| {
                let span = Span::new_extra(text, SpanInfo::default());
                match c.entry {
                    Entry::RawSv => sv_parser(span).map(|(r, t)| (r.location_offset(), exact_skeleton(&t))).map_err(|_| ()),
                    Entry::RawSvIncomplete => sv_parser_incomplete(span).map(|(r, t)| (r.location_offset(), exact_skeleton(&t))).map_err(|_| ()),
                    Entry::RawLib => lib_parser(span).map(|(r, t)| (r.location_offset(), exact_skeleton(&t))).map_err(|_| ()),
                    _ => pp_parser(span).map(|(r, t)| (r.location_offset(), exact_skeleton(&t))).map_err(|_| ()),
                }
            });
            match r {
                Ok(Ok((rest, sk))) => Res::Raw(format!("Ok rest@{} {:?}", rest, sk)),
                Ok(Err(())) => Res::Raw("Err".into()),
                Err(p) => Res::Raw(format!("PANIC {}", p.0)),
            }
        }
    }
}

/// run the call alone on a new OS thread (fresh thread-locals)
pub fn exec_fresh(c: &Call) -> Res {
    let c2 = c.clone();
    std::thread::Builder::new()
        .stack_size(1 << 28)
        .spawn(move || {
            let mut rb = RawBuf::new();
            exec(&c2, &mut rb)
        })
        .expect("spawn fresh")
        .join()
        .unwrap_or_else(|_| Res::Raw("fresh thread died".into()))
}

/// inputs chosen to leave residue in thread-local parser state
pub const POLLUTERS: &[&str] = &[
    "`begin_keywords \"1364-2001\"\nmodule m; wire logic; endmodule\n",
    "`begin_keywords \"1364-1995\"\nmodule m; wire signed; endmodule\n`begin_keywords \"1800-2005\"\n",
    "`begin_keywords \"1364-2005\"\n`begin_keywords \"1800-2009\"\nmodule m; endmodule\n`end_keywords\n",
    "`resetall\nmodule m; endmodule",
    "`define\n",
    "`define 1 x\n",
    "`undef",
    "`ifdef A\nmodule",
    "`M1",
    "`define R `R\n`R",
    "`define A `B\n`define B `A\n`A",
    "module m; initial begin a = (((((b",
    "`timescale 1ns",
    "`include",
    "`include \"nonexistent_file.svh\"\n",
    "`pragma foo bar = (1, \"x\"",
    "`line 1",
    "module m; wire `celldefine /* c",
    "`begin_keywords \"bogus\"",
    "`end_keywords",
    "`end_keywords\n`end_keywords\nmodule m; endmodule",
    "module m; `begin_keywords \"1364-2001\" wire logic; endmodule",
    "`default_nettype",
    "`define X(a,\n",
    "`X(",
    "`celldefine `celldefine `begin_keywords \"1364-2001\" module",
    "module m; wire w = `",
    "`timescale 1ns / 1ps // c\nmodule",
    "`unconnected_drive",
    "`begin_keywords \"1364-2001-noconfig\"\nmodule m; wire config; endmodule",
    // failures one or more levels inside an expansion (whatever is counted or pushed on the way down has to be
    // undone on the way up)
    "`define Q `UNDEFINED_INSIDE\n`Q",
    "`define P1(a) a `P2(a)\n`define P2(b) `P3()\n`define P3(c) c\n`P1(x)",
    "`define I `include \"nonexistent_file.svh\"\n`I\n",
    "`define S \"unterminated\n`S",
];

/// probes that are sensitive to each kind of residue
pub const PROBES: &[&str] = &[
    "module m; wire logic; endmodule",
    "module m; wire signed; endmodule",
    "module module; endmodule",
    "module m; wire config; endmodule",
    "module m; wire checker, interconnect, priority; endmodule",
    "module m; wire w; `celldefine // c\n/* d */ wire v; endmodule",
    "`timescale 1ns/1ps // c\nmodule m; /* x */ endmodule // y\n",
    "module m; assign a = (A == 1) ? 1 - 1 : (A == 1) ? 1 - 1 : 1 - 1; endmodule",
    "library l a.v; include b;",
    "`define X(a) a+1\nmodule m; assign w = `X(2); endmodule",
    "`define include 1\n",
    "`define begin_keywords 1\n",
    "module m; logic define, include, undef, timescale; endmodule",
    "`begin_keywords \"1364-2001\"\nmodule m; wire logic; endmodule\n`end_keywords\nmodule n; wire logic; endmodule\n",
    "`define A1 1\n`define B1 (`A1 + `A1)\n`define C1(x) (`B1 * x)\nmodule m; assign w = `C1(`B1); endmodule\n",
    "`define L0 0\n`define L1 `L0\n`define L2 `L1\n`define L3 `L2\n`define L4 `L3\n`define L5 `L4\n`define L6 `L5\n`define L7 `L6\nmodule m; wire [`L7:0] w; endmodule\n",
];

/// texts whose result depends on which file an include name resolves to (C07 gives the directories)
pub const INCLUDERS: &[&str] = &[
    "`include \"inc.svh\"\nmodule m; wire [`W-1:0] x; endmodule\n",
    "`include \"inc.svh\"\n`ifdef FROM_B\nmodule b; endmodule\n`else\nmodule a; endmodule\n`endif\n",
    "`include <inc.svh>\n`ifdef FROM_INC\nmodule i; endmodule\n`endif\n",
    "`include \"only_a.svh\"\n`ifdef ONLY_A\nmodule m; endmodule\n`endif\n",
    "module m;\n`include \"only_b.svh\"\nendmodule\n",
    "`define N \"inc.svh\"\n`include `N\nmodule m; wire [`W:0] y; endmodule\n",
];
