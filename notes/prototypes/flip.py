import subprocess,re,sys
def run(P,src):
    out=subprocess.run([P,'pp',src],capture_output=True,text=True).stdout
    if not out.startswith('TEXT'): return None
    lines=out.split('\n')
    import ast
    text=ast.literal_eval(lines[0].split(': ',1)[1])
    orig={}
    for tok in lines[1].split(' ')[1:]:
        if not tok: continue
        parts=tok.split(':')
        i=int(parts[0])
        orig[i]=None if parts[1]=='None' else (parts[1],int(parts[2]))
    return text,orig
def check(P,src):
    base=run(P,src)
    text,orig=base
    viol=[];n=0
    b=src
    for q,ch in enumerate(b):
        if ch==' ': alt='\t'
        elif ch=='\t': alt=' '
        elif ch.isalpha() and ch not in 'tx': alt='x' if ch!='x' else 'y'
        elif ch.isdigit(): alt='7' if ch!='7' else '8'
        else: continue
        # only flip payload-ish: skip letters in directive keywords/macro names: detect by context (preceded by backtick-word)
        m=re.search(r'`\w*$',b[:q])
        if m and ch.isalnum(): continue
        # skip macro names in define / ifdef lines (word right after `define/`ifdef/`undef )
        if re.search(r'`(define|ifdef|ifndef|elsif|undef)\s+\w*$',b[:q]) and ch.isalnum(): continue
        s2=b[:q]+alt+b[q+1:]
        r=run(P,s2)
        if r is None: continue
        t2,_=r
        if len(t2)!=len(text): continue
        P_q=[i for i in range(len(text)) if text[i]!=t2[i]]
        n+=1
        for p in P_q:
            o=orig.get(p)
            if o is None or o[1]!=q:
                # allow expansion: q inside a define body -> origin offset >= body begin (approx: any offset on a `define line)
                viol.append((q,repr(ch),p,o))
    return n,viol
src=open(sys.argv[2]).read()
n,v=check(sys.argv[1],src)
print(sys.argv[1],"flips",n,"violations",len(v)); 
for x in v[:12]: print("  src_off=%d ch=%s out_pos=%d origin=%s"%x)
