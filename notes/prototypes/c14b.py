import json,random,subprocess,re,sys,ast
P='target/release/probe'
CLOSE={'end','endmodule','endfunction','endtask','endcase','endclass','endpackage','endinterface','endprogram','endgenerate','join','join_any','join_none','endspecify','endtable','endprimitive','endconfig','endgroup','endsequence','endproperty','endchecker','endclocking','(',')','[',']','{','}'}
def parse(src):
    out=subprocess.run([P,'sv',src],capture_output=True,text=True).stdout
    if not out.startswith('LEAVES'): return None,out.strip()[:100]
    return ast.literal_eval(out.split('\n')[0].split('LEAVES: ',1)[1]),None
items=json.load(open('corpus.json'))
r=random.Random(int(sys.argv[1])); N=int(sys.argv[2])
progs=[src for p,src,e in items if p!='library_text']
st={'rejected':0,'accepted':0,'other_err':0}
n=0
while n<N:
    src=r.choice(progs)
    if '`' in src: continue
    cand=src
    leaves,_=parse(cand)
    if leaves is None:
        cand='module __w;\n'+src+'\nendmodule\n'; leaves,_=parse(cand)
        if leaves is None: continue
    # pp text == reconstruct from leaves
    text=''.join(s for (_,_,_,s) in leaves)
    idx=[i for i,(o,l,ln,s) in enumerate(leaves) if s in CLOSE]
    if not idx: continue
    i=r.choice(idx)
    mut=''.join(s for j,(_,_,_,s) in enumerate(leaves) if j!=i)
    if leaves[i][3].isalpha(): mut=''.join((s if j!=i else ' ') for j,(_,_,_,s) in enumerate(leaves))
    l2,err=parse(mut)
    n+=1
    if l2 is None:
        if err.startswith('ERR: Parse'): st['rejected']+=1
        else: st['other_err']+=1; print("OTHER",err,repr(leaves[i][3]))
    else:
        st['accepted']+=1
        o=leaves[i][0]
        print("ACCEPTED after deleting",repr(leaves[i][3]),"at",o,"ctx:",repr(text[max(0,o-40):o+30]))
print(st)
