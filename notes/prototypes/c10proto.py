import os,subprocess,re,sys,shutil,itertools
P=sys.argv[1]
D='/tmp/scratch/c10dir'
def run(top,cwd,incs):
    out=subprocess.run([P,'pp',top]+list(incs),capture_output=True,text=True,cwd=cwd).stdout
    if out.startswith('TEXT'):
        import ast
        return 'OK '+' '.join(re.findall(r'\bfrom_\w+',ast.literal_eval(out.split('\n')[0].split(': ',1)[1])))
    return out.strip()[:150]
bad=0;n=0
for present in itertools.product([0,1],repeat=4):   # cwd, inc1, inc2, sub-of-cwd
    shutil.rmtree(D,ignore_errors=True)
    for d in ('cwd','inc1','inc2','cwd/sub'): os.makedirs(D+'/'+d)
    locs=['cwd','inc1','inc2']
    for i,l in enumerate(locs):
        if present[i]: open('%s/%s/x.svh'%(D,l),'w').write('from_%s\n'%l)
    for order in (['inc1','inc2'],['inc2','inc1'],[]):
        for style in ('"x.svh"','<x.svh>','`P'):
            top=('`define P "x.svh"\n' if style=='`P' else '')+'`include %s\n'%style
            got=run(top,D+'/cwd',[D+'/'+o for o in order])
            # reference
            if present[0]: exp='from_cwd'
            else:
                exp=None
                for o in order:
                    if present[locs.index(o)]: exp='from_'+o; break
            n+=1
            ok = (got=='OK '+exp) if exp else ('File' in got and 'x.svh' in got and 'Include' in got)
            if not ok: bad+=1; print("MISMATCH present",present,"order",order,style,"got",got,"exp",exp)
# absolute path
open(D+'/inc2/abs.svh','w').write('from_abs\n')
print(run('`include "%s/inc2/abs.svh"\n'%D,D+'/cwd',[]))
# defines flow in and out, nested, same file twice
open(D+'/cwd/d1.svh','w').write('`ifdef OUTER\nfrom_d1_sees_outer\n`endif\n`define INNER\n`undef OUTER\n`include "d2.svh"\n')
open(D+'/cwd/d2.svh','w').write('`ifdef INNER\nfrom_d2_sees_inner\n`endif\n`define DEEP\n')
print(run('`define OUTER\n`include "d1.svh"\n`ifdef INNER\nfrom_top_inner\n`endif\n`ifdef OUTER\nfrom_top_outer_still\n`endif\n`ifdef DEEP\nfrom_top_deep\n`endif\n`include "d2.svh"\n',D+'/cwd',[]))
print("cases",n,"bad",bad)
