import random,subprocess,re,sys,ast
NAMES=['A','B','C','D','__LINE__','__FILE__']
uid=[0]
def tok():
    uid[0]+=1; return ('tok','t%d'%uid[0])
def gen_block(r,depth):
    items=[]
    for _ in range(r.randint(0,4)):
        k=r.random()
        if k<0.35: items.append(tok())
        elif k<0.5: items.append(('define',r.choice(NAMES[:4])))
        elif k<0.6: items.append(('undef',r.choice(NAMES[:4])))
        elif k<0.63: items.append(('undefall',))
        elif k<0.66: items.append(('str',))
        elif k<0.70: items.append(('cmt',))
        elif depth<4:
            kind=r.choice(['ifdef','ifndef'])
            chain=[(r.choice(NAMES),gen_block(r,depth+1))]
            for _ in range(r.choice([0,0,1,2])): chain.append((r.choice(NAMES),gen_block(r,depth+1)))
            els=gen_block(r,depth+1) if r.random()<0.5 else None
            items.append(('cond',kind,chain,els))
    return items
def render(items,r,dead=False):
    out=[]
    sep=lambda: r.choice(['\n','\n',' ','  \n','\t'])
    for it in items:
        if it[0]=='tok': out.append(it[1]+sep())
        elif it[0]=='define': out.append('`define %s%s\n'%(it[1], r.choice([' 1','',' x y'])))
        elif it[0]=='undef': out.append('`undef %s%s'%(it[1],sep()))
        elif it[0]=='undefall': out.append('`undefineall'+sep())
        elif it[0]=='str': out.append('"`endif `else";'+sep())
        elif it[0]=='cmt': out.append(r.choice(['/* `endif */','// `else `endif\n'])+sep())
        else:
            _,kind,chain,els=it
            s='`%s %s%s'%(kind,chain[0][0],sep())+render(chain[0][1],r)
            for n,b in chain[1:]: s+='`elsif %s%s'%(n,sep())+render(b,r)
            if els is not None: s+='`else'+sep()+render(els,r)
            s+='`endif'+sep()
            out.append(s)
    return ''.join(out)
PRE={'__LINE__','__FILE__'}
def ev(items,defs,out,quirk):
    for it in items:
        if it[0]=='tok': out.append(it[1])
        elif it[0]=='define':
            if it[1] not in PRE: defs.add(it[1])
        elif it[0]=='undef': defs.discard(it[1])
        elif it[0]=='undefall': defs.clear()
        elif it[0] in('str','cmt'): pass
        else:
            _,kind,chain,els=it
            head=chain[0][0]
            d=lambda n:(n in defs) or (n in PRE)
            hit=d(head) if kind=='ifdef' else not d(head)
            taken=None
            if hit: taken=chain[0][1]
            else:
                for n,b in chain[1:]:
                    c = ((n in defs) or (head in PRE)) if quirk else d(n)
                    if c: taken=b; hit=True; break
                if not hit and els is not None: taken=els
            if taken is not None: ev(taken,defs,out,quirk)
def run(src):
    out=subprocess.run(['target/release/probe','pp',src],capture_output=True,text=True).stdout
    if not out.startswith('TEXT'): return None,out[:100]
    lines=out.split('\n')
    text=ast.literal_eval(lines[0].split(': ',1)[1])
    defs=re.findall(r'\("(\w+)", ',lines[2])
    return text,set(defs)
seed=int(sys.argv[1]); N=int(sys.argv[2])
r=random.Random(seed)
stats={'ok':0,'strict_mismatch':0,'quirk_explains':0,'viol':0,'err':0}
for i in range(N):
    uid[0]=0
    prog=gen_block(r,0)
    src=render(prog,r)
    text,defs=run(src)
    if text is None: stats['err']+=1; print("ERR",repr(src),defs); continue
    got=re.findall(r'\bt\d+\b',re.sub(r'`define[^\n]*','',text))
    exp=[];d=set();ev(prog,d,exp,False)
    if got==exp and defs==d: stats['ok']+=1; continue
    stats['strict_mismatch']+=1
    exq=[];dq=set();ev(prog,dq,exq,True)
    if got==exq and defs==dq: stats['quirk_explains']+=1
    else:
        stats['viol']+=1
        if stats['viol']<=3: print("VIOL",repr(src),"\n got",got,defs,"\n exp",exp,d)
print(stats)
