import random,subprocess,re,sys,ast
uid=[0]
def fresh(p='t'):
    uid[0]+=1; return '%s%d'%(p,uid[0])
def lex(s):
    # tokens: strings, identifiers/numbers (with $), single punct; skip whitespace
    return re.findall(r'"(?:[^"\\]|\\.)*"|[A-Za-z0-9_$]+|[^\sA-Za-z0-9_$"]',s)
# ---- abstract model
# macro: {name, formals:[(fname, default_text or None)], body:[pieces]} 
# pieces: ('tok',text) ('formal',i) ('paste',[subpieces tok/formal]) ('strfy',[subpieces tok/formal/' ']) ('str',text) ('use',macroname,[actual texts])
def gen_actual(r,macros,depth=0):
    k=r.random()
    if k<0.35: return fresh('a')
    if k<0.5: return '%s + %s'%(fresh('a'),fresh('a'))
    if k<0.62: return 'f%d(%s, %s)'%(r.randint(0,9),fresh('a'),fresh('a'))
    if k<0.72: return '[%s:%s]'%(fresh('a'),fresh('a'))
    if k<0.80: return '{%s, %s}'%(fresh('a'),fresh('a'))
    if k<0.90: return '"%s,%s)"'%(fresh('s'),fresh('s'))
    return '(%s)'%fresh('a')
def gen_macro(r,macros):
    name=fresh('M')
    nf=r.choice([0,0,1,2,3])
    formals=[]
    for i in range(nf):
        d=None
        if r.random()<0.4: d=r.choice([fresh('d'),'(%s,%s)'%(fresh('d'),fresh('d')),'"%s"'%fresh('d')])
        formals.append((fresh('p'),d))
    body=[]
    for _ in range(r.randint(1,6)):
        k=r.random()
        if k<0.3 or nf==0 and k<0.55: body.append(('tok',fresh('b')))
        elif k<0.6 and nf: body.append(('formal',r.randrange(nf)))
        elif k<0.7 and nf:
            sub=[r.choice([('tok',fresh('b')),('formal',r.randrange(nf))]) for _ in range(r.randint(2,3))]
            body.append(('paste',sub))
        elif k<0.78 and nf:
            sub=[r.choice([('tok',fresh('b')),('formal',r.randrange(nf))]) for _ in range(r.randint(1,3))]
            body.append(('strfy',sub))
        elif k<0.85 and nf: body.append(('str','%s %s'%(formals[0][0],fresh('q'))))
        elif macros:
            m=r.choice(macros)
            acts=[]
            for (fn,d) in m['formals']:
                if nf and r.random()<0.4: acts.append(('formal',r.randrange(nf)))
                else: acts.append(('text',gen_actual(r,macros)))
            body.append(('use',m['name'],acts))
        else: body.append(('tok',fresh('b')))
    nb=[]
    for p in body:
        if p[0]=='use' and (not nb or nb[-1][0]!='tok'): nb.append(('tok',fresh('b')))
        nb.append(p)
    body=nb
    return {'name':name,'formals':formals,'body':body}
def render_piece(p,formals):
    if p[0]=='tok': return p[1]
    if p[0]=='formal': return formals[p[1]][0]
    if p[0]=='paste': return '``'.join(render_piece(x,formals) for x in p[1])
    if p[0]=='strfy': return '`"'+' '.join(render_piece(x,formals) for x in p[1])+'`"'
    if p[0]=='str': return '"'+p[1]+'"'
    if p[0]=='use':
        acts=[(formals[a[1]][0] if a[0]=='formal' else a[1]) for a in p[2]]
        return '`'+p[1]+('('+', '.join(acts)+')' if acts else '')
def render_macro(m,r):
    fs=''
    if m['formals']: fs='('+', '.join(f+(' = '+d if d is not None else '') for f,d in m['formals'])+')'
    cont=r.choice([' ',' ',' \\\n  '])
    return '`define %s%s %s\n'%(m['name'],fs,cont.join(render_piece(p,m['formals'])+(';' if p[0]=='str' else '') for p in m['body']))
def expand(name,actuals,table):
    # actuals: list of text or None (omitted); returns expected text (tokens separated by spaces where not pasted)
    m=table[name]
    vals=[]
    for i,(fn,d) in enumerate(m['formals']):
        a=actuals[i] if i<len(actuals) else None
        if a is None or a=='':
            a=d if d is not None else ''
        vals.append(a)
    out=[]
    def sub(p):
        if p[0]=='tok': return p[1]
        if p[0]=='formal': return vals[p[1]]
    for p in m['body']:
        if p[0] in('tok','formal'): out.append(sub(p))
        elif p[0]=='paste': out.append(''.join(sub(x) for x in p[1]))
        elif p[0]=='strfy': out.append('"'+' '.join(sub(x) for x in p[1])+'"')
        elif p[0]=='str': out.append('"'+p[1]+'"'+';')
        elif p[0]=='use':
            acts=[(vals[a[1]] if a[0]=='formal' else a[1]) for a in p[2]]
            # nested usage inside actuals not generated; expand with current table
            out.append(expand(p[1],acts,table))
    return ' '.join(out)
def run(src):
    out=subprocess.run(['target/release/probe','pp',src],capture_output=True,text=True).stdout
    if not out.startswith('TEXT'): return None,out[:200]
    text=ast.literal_eval(out.split('\n')[0].split(': ',1)[1])
    return text,None
seed=int(sys.argv[1]); N=int(sys.argv[2])
r=random.Random(seed)
st={'ok':0,'mismatch':0,'err':0}
for it in range(N):
    uid[0]=0
    macros=[];table={}
    src='';exp=[]
    for _ in range(r.randint(1,4)):
        m=gen_macro(r,macros); macros.append(m); table[m['name']]=m
        src+=render_macro(m,r)
    for _ in range(r.randint(1,4)):
        m=r.choice(macros)
        acts=[]
        for (fn,d) in m['formals']:
            if d is not None and r.random()<0.3: acts.append('')
            else: acts.append(gen_actual(r,macros))
        pre=fresh('x');post=fresh('y')
        pad=r.choice(['',' ','  '])
        src+='%s `%s%s %s;\n'%(pre,m['name'],('('+pad+(pad+','+pad).join(acts)+pad+')' if m['formals'] else ''),post)
        exp+= [pre]+lex(expand(m['name'],acts,table))+[post,';']
    text,err=run(src)
    if text is None: st['err']+=1; print("ERR",err,repr(src)); continue
    body=re.sub(r'`define(?:[^\n\\]|\\\n|\\.)*\n','',text)
    got=lex(body)
    if got==exp: st['ok']+=1
    else:
        st['mismatch']+=1
        if st['mismatch']<=4: print("MISMATCH\n",src,"\n got",got,"\n exp",exp)
print(st)
