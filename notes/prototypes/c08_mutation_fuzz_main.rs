use std::collections::HashMap;
use std::convert::TryFrom;
use std::path::PathBuf;
use sv_parser::*;
use std::panic::{catch_unwind, AssertUnwindSafe};
struct Rng(u64);
impl Rng { fn next(&mut self)->u64{ self.0^=self.0<<13; self.0^=self.0>>7; self.0^=self.0<<17; self.0 } fn below(&mut self,n:usize)->usize{ (self.next()%(n as u64)) as usize } }
const INS: &[&str] = &["`", "\"", "\\", "/*", "*/", "//", "(", ")", "[", "]", "{", "}", "`define X", "`ifdef A\n", "`endif\n", "`else\n", "`X", "`include \"f\"", "\n", ";", "'", "#", "@", "é", "\u{1}", "begin", "end", "endmodule", "module", "`begin_keywords \"1364-2001\"\n", "`end_keywords\n", "`resetall", "`__LINE__", "`timescale 1ns/1ps\n", "`line 1 \"f\" 0\n", "`pragma p a=(1,\"x\")\n", "`undef X\n", "`undefineall\n", "``", "`\"", "`\\`\""];
fn touch_all(t: &SyntaxTree) {
    let _ = format!("{}", t); let _ = format!("{:?}", t);
    let mut n = 0usize;
    for node in t { n += 1; let _ = t.get_str(vec![node.clone()]); let _ = t.get_str_trim(vec![node.clone()]);
        // Locate::try_from on a selection of concrete node types reachable via RefNode
        match node { RefNode::ModuleDeclaration(x) => { let _ = Locate::try_from(x); } RefNode::Description(x) => { let _ = Locate::try_from(x); } RefNode::Expression(x) => { let _ = Locate::try_from(x); } RefNode::Statement(x) => { let _ = Locate::try_from(x); } RefNode::WhiteSpace(x) => { let _ = Locate::try_from(x); } RefNode::CompilerDirective(x) => { let _ = Locate::try_from(x); } RefNode::ModuleItem(x) => { let _ = Locate::try_from(x); } RefNode::SourceText(x) => { let _ = Locate::try_from(x); } _ => {} }
        if n > 20000 { break; } }
    for _e in t.into_iter().event() {}
}
fn main() {
    let data: &'static str = Box::leak(std::fs::read_to_string(std::env::args().nth(1).unwrap()).unwrap().into_boxed_str());
    let seed: u64 = std::env::args().nth(2).unwrap().parse().unwrap(); let n: usize = std::env::args().nth(3).unwrap().parse().unwrap();
    let corpus: Vec<&str> = data.split('\u{1}').collect();
    let mut rng = Rng(seed.wrapping_mul(0x9E3779B97F4A7C15) | 1);
    if std::env::var("QUIET").is_ok() { std::panic::set_hook(Box::new(|_| {})); }
    let defs: Defines = HashMap::new(); let inc: Vec<PathBuf> = vec![];
    let (mut calls, mut oks, mut panics) = (0usize, 0usize, 0usize); let mut seen = std::collections::HashSet::new();
    let th = std::thread::Builder::new().stack_size(1 << 30).spawn(move || {
    for _ in 0..n {
        let base = corpus[rng.below(corpus.len())];
        let mut s: Vec<u8> = base.as_bytes().to_vec();
        for _ in 0..(1 + rng.below(3)) { if s.is_empty() { break; } match rng.below(5) {
            0 => { let p = rng.below(s.len()); s.truncate(p); }
            1 => { let p = rng.below(s.len()+1); let ins = INS[rng.below(INS.len())].as_bytes(); s.splice(p..p, ins.iter().cloned()); }
            2 => { let p = rng.below(s.len()); let q = (p + 1 + rng.below(8)).min(s.len()); s.drain(p..q); }
            3 => { let p = rng.below(s.len()); let q = (p + 1 + rng.below(20)).min(s.len()); let chunk: Vec<u8> = s[p..q].to_vec(); let r = rng.below(s.len()+1); s.splice(r..r, chunk); }
            _ => { let p = rng.below(s.len()); s[p] = b" \n`\"\\()[]{};,/*#'@0aZ_$"[rng.below(23)]; } } }
        let src = match String::from_utf8(s) { Ok(x) => x, Err(_) => continue };
        for mode in 0..4 {
            calls += 1;
            let r = catch_unwind(AssertUnwindSafe(|| match mode {
                0 => preprocess_str(&src, PathBuf::from("t.sv"), &defs, &inc, false, true, 0, 0).is_ok(),
                1 => { let r = parse_sv_str(&src, PathBuf::from("t.sv"), &defs, &inc, false, false); if let Ok((t,_)) = &r { touch_all(t); } r.is_ok() }
                2 => { let r = parse_sv_str(&src, PathBuf::from("t.sv"), &defs, &inc, true, true); if let Ok((t,_)) = &r { touch_all(t); } r.is_ok() }
                _ => { let r = parse_lib_str(&src, PathBuf::from("t.sv"), &defs, &inc, false, true); if let Ok((t,_)) = &r { touch_all(t); } r.is_ok() } }));
            match r { Ok(true) => oks += 1, Ok(false) => {}, Err(e) => { panics += 1; let msg = if let Some(m)=e.downcast_ref::<String>(){m.clone()} else if let Some(m)=e.downcast_ref::<&str>(){m.to_string()} else {"?".into()}; let key: String = msg.chars().take(70).collect(); if seen.insert(key.clone()) { println!("PANIC mode={} msg={} input={:?}", mode, key, &src[..src.len().min(300)]); } } }
        }
    }
    println!("calls={} ok={} panics={}", calls, oks, panics);
    }).unwrap(); th.join().unwrap();
}
