import random,subprocess,re,sys
P='target/release/probe'
KW_PREFIXED=['module_x','end','wirex','beginning','logic_','input_','always1','assignx','regs','function_a','task_','endmodule_','int_','bit_x','forkk','casex_','if_','else_','for_','do_','begin_','end_','wire_','reg_']
class G:
    def __init__(s,seed): s.r=random.Random(seed); s.n=0; s.facts=[]; s.modules=[]
    def id(s,esc_ok=True):
        s.n+=1
        k=s.r.random()
        if k<0.35: base=s.r.choice(KW_PREFIXED)
        elif k<0.45: base='a$b'
        elif k<0.55 and esc_ok: return '\\e+%d*x '%s.n
        elif k<0.6: base='X'
        else: base='sig'
        return '%s%d'%(base,s.n) if not base.endswith('_') else '%s%d'%(base,s.n)
    def fact(s,kind,name): s.facts.append((kind,name.strip()))
    def expr(s,names,d=0):
        r=s.r
        k=r.random()
        if d>2 or k<0.3: 
            return r.choice(names) if names and r.random()<0.6 else r.choice(["1","8'hFF","'0","4'b1x0z","3","1.5","'d7","16'sd3"])
        if k<0.55: return '%s %s %s'%(s.expr(names,d+1),r.choice(['+','-','*','&','|','^','==','!=','<','>=','&&','||','<<','>>>','===','%','**']),s.expr(names,d+1))
        if k<0.65: return '(%s)'%s.expr(names,d+1)
        if k<0.72: return '%s ? %s : %s'%(s.expr(names,d+1),s.expr(names,d+1),s.expr(names,d+1))
        if k<0.8: return '{%s, %s}'%(s.expr(names,d+1),s.expr(names,d+1))
        if k<0.86: return '{2{%s}}'%s.expr(names,d+1)
        if k<0.92: return '%s(%s)'%(r.choice(['~','!','-','&','|','^']),s.expr(names,d+2))
        return '%s[%s]'%(r.choice(names),r.choice(['0','1','3:0','1+:2'])) if names else '2'
    def stmt(s,names,d=0):
        r=s.r;k=r.random()
        lv=r.choice(names)
        if d>2 or k<0.35: return '%s %s %s;'%(lv,r.choice(['=','<=']),s.expr(names))
        if k<0.5: return 'if (%s) %s else %s'%(s.expr(names),s.stmt(names,d+1),s.stmt(names,d+1))
        if k<0.6:
            lab=s.id(False); s.fact('BlockIdentifier',lab)
            return 'begin : %s ; %s %s end'%(lab,s.stmt(names,d+1),s.stmt(names,d+1))
        if k<0.7: return 'case (%s) 0: %s 1, 2: %s default: ; endcase'%(s.expr(names),s.stmt(names,d+1),s.stmt(names,d+1))
        if k<0.78:
            i=s.id(False)
            return 'for (int %s = 0; %s < 4; %s++) %s'%(i,i,i,s.stmt(names+[i],d+1))
        if k<0.84: return 'while (%s) %s'%(s.expr(names),s.stmt(names,d+1))
        if k<0.9: return '$display("v=%%d %s", %s);'%(r.choice(['x','\\"q\\"','end']),s.expr(names))
        return '#1 %s'%s.stmt(names,d+1)
    def module(s):
        r=s.r
        name=s.id(False); 
        ansi=r.random()<0.6
        s.fact('ModuleDeclarationAnsi' if ansi else 'ModuleDeclarationNonansi',name)
        out=[];names=[]
        params=[]
        hdr='module %s'%name
        if r.random()<0.5:
            ps=[]
            for _ in range(r.randint(1,3)):
                p=s.id(False); s.fact('ParamAssignment',p); ps.append('parameter %s%s = %s'%(r.choice(['','int ','[3:0] ']),p,r.choice(['1','8','2*3'])))
                params.append(p)
            hdr+=' #(%s)'%', '.join(ps)
        ports=[]
        nports=r.randint(0,4)
        if not ansi and nports==0: nports=1
        if ansi:
            pl=[]
            for _ in range(nports):
                p=s.id(); s.fact('AnsiPortDeclaration',p); ports.append(p)
                pl.append('%s %s%s%s'%(r.choice(['input','output','inout']),r.choice(['','wire ','logic ','reg ','wire logic ']),r.choice(['','[3:0] ','[7:0] ']),p))
            hdr+=' (%s);'%', '.join(pl) if pl or r.random()<0.5 else ';'
        else:
            for _ in range(nports): ports.append(s.id())
            hdr+=' (%s);'%', '.join(ports)
            for p in ports:
                d=r.choice(['input','output','inout']); s.fact({'input':'InputDeclaration','output':'OutputDeclaration','inout':'InoutDeclaration'}[d],p)
                out.append('%s %s%s;'%(d,r.choice(['','[3:0] ']),p))
        names+=ports
        for _ in range(r.randint(1,8)):
            k=r.random()
            if k<0.2:
                w=s.id(); s.fact('NetDeclAssignment',w); names.append(w); out.append('%s %s%s%s;'%(r.choice(['wire','tri','wand']),r.choice(['','[3:0] ','signed [7:0] ']),w,(' = '+s.expr(names[:-1]) if names[:-1] and r.random()<0.3 else '')))
            elif k<0.4:
                v=s.id(); s.fact('VariableDeclAssignment',v); names.append(v); t=r.choice(['logic','reg','bit','int','integer','byte']); out.append('%s %s%s%s;'%(t,(r.choice(['','[3:0] ']) if t in('logic','reg','bit') else ''),v,r.choice(['',' [0:3]',''])))
            elif k<0.5:
                lp=s.id(False); s.fact('ParamAssignment',lp); out.append('localparam %s = %s;'%(lp,s.expr(params)))
            elif k<0.62 and names:
                lv=r.choice(names); s.fact('NetAssignment',lv); out.append('assign %s = %s;'%(lv,s.expr(names)))
            elif k<0.75 and names:
                out.append('%s %s'%(r.choice(['always @(*)','always_comb','initial','always @(posedge %s)'%r.choice(names),'always_ff @(posedge %s or negedge %s)'%(r.choice(names),r.choice(names))]),s.stmt(names)))
            elif k<0.85 and s.modules:
                m,mports,mparams=r.choice(s.modules)
                inst=s.id(); s.fact('ModuleInstantiation',m); s.fact('HierarchicalInstance',inst)
                pa=''
                if mparams and r.random()<0.5: pa=' #(%s)'%', '.join('.%s (%s)'%(p,r.choice(['1','4'])) for p in mparams)
                style=r.random()
                if style<0.5: conns=', '.join('.%s (%s)'%(p.strip(),s.expr(names) if names else '1') for p in mports)
                elif style<0.8: conns=', '.join((s.expr(names) if names else '1') for p in mports)
                else: conns='.*'
                out.append('%s%s %s (%s);'%(m,pa,inst,conns))
            elif k<0.93:
                f=s.id(False); a=s.id(False); s.fact('FunctionDeclaration',f); s.fact('TfPortItem',a)
                out.append('function %s%s %s(input %s %s); ; %s = %s; endfunction'%(r.choice(['','automatic ']),r.choice(['int','logic [3:0]','void' if False else 'bit']),f,r.choice(['int','logic']),a,f,a))
            else:
                t=s.id(False); a=s.id(False); s.fact('TaskDeclaration',t); s.fact('TfPortItem',a)
                out.append('task %s(output int %s); ; %s = 1; endtask'%(t,a,a))
        s.modules.append((name,ports,params))
        tail='endmodule'+(' : %s'%name if r.random()<0.3 else '')
        return hdr+'\n  '+'\n  '.join(out)+'\n'+tail+'\n'
TRACK={'ModuleDeclarationAnsi','ModuleDeclarationNonansi','ParamAssignment','AnsiPortDeclaration','InputDeclaration','OutputDeclaration','InoutDeclaration','NetDeclAssignment','VariableDeclAssignment','NetAssignment','ModuleInstantiation','HierarchicalInstance','FunctionDeclaration','TaskDeclaration','TfPortItem','BlockIdentifier'}
def observed(tree):
    lines=tree.split('\n'); obs=[]
    for i,l in enumerate(lines):
        nm=l.strip()
        if nm in TRACK:
            ind=len(l)-len(l.lstrip())
            # first identifier token below
            j=i+1; name=None; seen_ident=False
            while j<len(lines):
                lj=lines[j]; indj=len(lj)-len(lj.lstrip())
                if indj<=ind: break
                t=lj.strip()
                if t in('SimpleIdentifier','EscapedIdentifier'): seen_ident=True
                m=re.match(r"Token: '(.*)' @ line",t)
                if m and seen_ident: name=m.group(1); break
                j+=1
            obs.append((nm,name))
    return obs
seed=int(sys.argv[1]);N=int(sys.argv[2])
st={'ok':0,'rejected':0,'factdiff':0}
hist={}
for it in range(N):
    g=G(seed*100000+it)
    src=''.join(g.module() for _ in range(g.r.randint(1,3)))
    out=subprocess.run([P,'sv',src,'--tree'],capture_output=True,text=True).stdout
    if not out.startswith('LEAVES'):
        st['rejected']+=1
        m=re.search(r', (\d+)\)',out)
        if m and st['rejected']<=12:
            o=int(m.group(1)); b=src.encode(); print("REJECTED at",o,repr(b[max(0,o-70):o].decode(errors='replace')),'>>>',repr(b[o:o+40].decode(errors='replace')))
        continue
    obs=observed(out.split('\n',1)[1])
    # InputDeclaration etc names: port id comes via ListOfPortIdentifiers -> first ident is fine
    from collections import Counter
    exp=Counter(g.facts); got=Counter(obs)
    # port declarations of nonansi with multiple? one per line here
    if exp==got: st['ok']+=1
    else:
        st['factdiff']+=1
        for (k,n_),c in (exp-got).items(): hist[('missing',k)]=hist.get(('missing',k),0)+c
        for (k,n_),c in (got-exp).items(): hist[('extra',k)]=hist.get(('extra',k),0)+c
        if st['factdiff']<=3: print("FACTDIFF missing",list((exp-got).items())[:4],"extra",list((got-exp).items())[:4])
print(st); print(hist)
