use std::collections::HashMap;
use std::path::PathBuf;
use sv_parser::*;

fn canon_tree(t: &SyntaxTree) -> String { let mut h: u64 = 1469598103934665603; let mut n = 0; for x in t { n += 1; let s = match x { RefNode::Locate(l) => format!("L{}:{}:{}", l.offset, l.line, l.len), y => format!("{}", y) }; for b in s.bytes() { h ^= b as u64; h = h.wrapping_mul(1099511628211);} } format!("n={} h={:x}", n, h) }
fn canon_defs(d: &Defines) -> String { let mut v: Vec<String> = d.iter().map(|(k,v)| format!("{}={:?}", k, v)).collect(); v.sort(); v.join(";") }
fn canon_parse(r: Result<(SyntaxTree, Defines), Error>) -> String { match r { Ok((t,d)) => format!("OK {} | {}", canon_tree(&t), canon_defs(&d)), Err(e) => format!("ERR {:?}", e) } }
fn canon_pp(r: Result<(PreprocessedText, Defines), Error>) -> String { match r { Ok((t,d)) => { let mut o = String::new(); for i in 0..t.text().len() { o.push_str(&format!("{:?},", t.origin(i))); } format!("OK {:?} | {} | {}", t.text(), canon_defs(&d), o) }, Err(e) => format!("ERR {:?}", e) } }

fn main() {
    let dir = PathBuf::from("/tmp/scratch/apidir"); let _ = std::fs::remove_dir_all(&dir); std::fs::create_dir_all(&dir).unwrap();
    std::fs::write(dir.join("inc.svh"), "`define FROM_INC 7\nwire inc_w; // inc comment\n").unwrap();
    std::fs::write(dir.join("bad.svh"), b"wire \xff\xfe;\n").unwrap();
    std::fs::create_dir_all(dir.join("adir.svh")).unwrap();
    let inputs: Vec<(&str, String)> = vec![
        ("plain", "module m; /* c */ wire w; // d\nendmodule\n".to_string()),
        ("inc", "module m; /* c1 */\n`include \"inc.svh\"\n wire [`FROM_INC:0] x; // c2\nendmodule\n".to_string()),
        ("broken", "module m; wire ; endmodule".to_string()),
        ("missing", "`include \"nothere.svh\"\n".to_string()),
        ("badutf8inc", "`include \"bad.svh\"\n".to_string()),
        ("dirinc", "`include \"adir.svh\"\n".to_string()),
        ("undefmacro", "module m; wire `NOPE; endmodule".to_string()),
        ("lib", "library l a.v; include b.map;\n".to_string()),
        ("junk-suffix", "module m; endmodule\n§§".to_string()),
    ];
    let defs: Defines = { let mut d = HashMap::new(); d.insert("EXT".to_string(), None); d.insert("EXT2".to_string(), Some(Define::new("EXT2".to_string(), vec![], Some(DefineText::new("42".to_string(), None))))); d };
    let incs = vec![dir.clone()];
    let mut mism = 0; let mut cmp = 0;
    for (name, src) in &inputs {
        let path = dir.join(format!("{}.sv", name)); std::fs::write(&path, src).unwrap();
        for ign in [false, true] { for inco in [false, true] {
            let a = canon_parse(parse_sv(&path, &defs, &incs, ign, inco));
            let b = canon_parse(parse_sv_str(src, &path, &defs, &incs, ign, inco));
            let c = match preprocess(&path, &defs, &incs, false, ign) { Ok((t,d)) => canon_parse(parse_sv_pp(t, d, inco)), Err(e) => format!("ERR {:?}", e) };
            let d = match preprocess_str(src, &path, &defs, &incs, ign, false, 0, 0) { Ok((t,d)) => canon_parse(parse_sv_pp(t, d, inco)), Err(e) => format!("ERR {:?}", e) };
            cmp += 3; for (x, tag) in [(&b,"str"),(&c,"pp+pp"),(&d,"ppstr+pp")] { if *x != a { mism += 1; println!("C20 MISMATCH {} ign={} inco={} {}:\n  file: {}\n  {}: {}", name, ign, inco, tag, &a[..a.len().min(150)], tag, &x[..x.len().min(150)]); } }
            let la = canon_parse(parse_lib(&path, &defs, &incs, ign, inco)); let lb = canon_parse(parse_lib_str(src, &path, &defs, &incs, ign, inco));
            cmp += 1; if la != lb { mism += 1; println!("C20 LIB MISMATCH {}", name); }
            for strip in [false, true] {
                let p1 = canon_pp(preprocess(&path, &defs, &incs, strip, ign)); let p2 = canon_pp(preprocess_str(src, &path, &defs, &incs, ign, strip, 0, 0));
                cmp += 1; if p1 != p2 { mism += 1; println!("C20 PP MISMATCH {} strip={} ign={}\n  {}\n  {}", name, strip, ign, &p1[..p1.len().min(200)], &p2[..p2.len().min(200)]); }
                if *name == "inc" && !inco { println!("  pp[{} strip={} ign={}] = {}", name, strip, ign, &p1[..p1.len().min(110)]); }
            }
        }}
        let e = parse_sv(&path, &defs, &incs, false, false); if let Err(e) = e { println!("  err[{}] = {:?}", name, e); }
    }
    // direct file faults
    for p in ["bad.svh", "adir.svh", "nothere.sv"] { let r = preprocess(dir.join(p), &defs, &incs, false, false); println!("  direct[{}] = {:?}", p, r.err()); }
    println!("comparisons={} mismatches={}", cmp, mism);
    // C19 mini: threads
    let srcs: Vec<String> = vec!["`begin_keywords \"1364-2001\"\nmodule m; wire logic; endmodule\n".into(), "module m; wire logic; endmodule".into(), "module m; wire w; `celldefine // c\n wire v; endmodule".into(), "`define R `R\n`R".into(), "module a; localparam a = (A == 1) ? 1 - 1 : (A == 1) ? 1 - 1 : 1 - 1; endmodule".into()];
    let reference: Vec<String> = srcs.iter().map(|s| { let s = s.clone(); std::thread::spawn(move || canon_parse(parse_sv_str(&s, PathBuf::from("t.sv"), &HashMap::new(), &Vec::<PathBuf>::new(), false, false))).join().unwrap() }).collect();
    let reference = std::sync::Arc::new(reference); let srcs = std::sync::Arc::new(srcs);
    let bar = std::sync::Arc::new(std::sync::Barrier::new(16)); let mut hs = vec![];
    for t in 0..16 { let (r, s, b) = (reference.clone(), srcs.clone(), bar.clone()); hs.push(std::thread::spawn(move || { b.wait(); let mut bad = 0; for i in 0..400 { let k = (i * 7 + t) % s.len(); let got = canon_parse(parse_sv_str(&s[k], PathBuf::from("t.sv"), &HashMap::new(), &Vec::<PathBuf>::new(), false, false)); if got != r[k] { bad += 1; } } bad })); }
    let bad: usize = hs.into_iter().map(|h| h.join().unwrap()).sum();
    println!("C19 mini: 16 threads x 400 calls, mismatches={}", bad);
}
