import json,subprocess,re
s=open('/repo/sv-parser-parser/src/keywords.rs').read()
T={}
for m in re.finditer(r'pub\(crate\) const (\w+): &\[&str\] = &\[(.*?)\];',s,re.S):
    T[m.group(1)]=set(re.findall(r'"([^"]+)"',m.group(2)))
K=T['KEYWORDS_1800_2017']
items=json.load(open('corpus.json'))
hits=0;n=0
for p,src,exp in items:
    if p=='library_text': continue
    for c in (src,'module __w;\n'+src+'\nendmodule\n'):
        out=subprocess.run(['target/release/probe','sv',c,'--tree'],capture_output=True,text=True).stdout
        if not out.startswith('LEAVES'): continue
        n+=1
        lines=out.split('\n')
        inpragma=False
        for i,l in enumerate(lines):
            if l.strip()=='SimpleIdentifier' and i+1<len(lines):
                m=re.match(r"\s*Token: '(.*)' @",lines[i+1])
                if m and m.group(1) in K:
                    # context
                    ctx=[x.strip() for x in lines[max(0,i-6):i]]
                    hits+=1; print("KW-IDENT",m.group(1),"ctx",ctx[-4:], "begin_keywords" in c)
        break
print("trees",n,"hits",hits)
