use std::collections::{HashMap, HashSet};
use std::path::PathBuf;
use sv_parser::*;

fn struct_names() -> HashSet<String> {
    // scan syntaxtree sources for `pub struct X`
    let mut set = HashSet::new();
    fn walk(p: &std::path::Path, set: &mut HashSet<String>) {
        for e in std::fs::read_dir(p).unwrap() { let e = e.unwrap(); let p = e.path();
            if p.is_dir() { walk(&p, set); } else if p.extension().map(|x| x=="rs").unwrap_or(false) {
                let s = std::fs::read_to_string(&p).unwrap();
                for l in s.lines() { if let Some(r) = l.strip_prefix("pub struct ") { let n: String = r.chars().take_while(|c| c.is_alphanumeric() || *c=='_').collect(); set.insert(n); } }
            } } }
    walk(std::path::Path::new("/repo/sv-parser-syntaxtree/src"), &mut set);
    for g in ["Paren","Brace","Bracket","ApostropheBrace","List","Locate"] { set.remove(g); }
    set
}

// parse derived Debug: sequence of ("S", name) for struct names followed by " {", and ("L", offset,len)
fn debug_witness(d: &str, structs: &HashSet<String>) -> Vec<String> {
    let b = d.as_bytes(); let mut out = vec![]; let mut i = 0;
    while i < b.len() {
        if b[i].is_ascii_alphabetic() {
            let st = i; while i < b.len() && (b[i].is_ascii_alphanumeric() || b[i]==b'_') { i += 1; }
            let name = &d[st..i];
            if d[i..].starts_with(" {") {
                if name == "Locate" {
                    // Locate { offset: N, line: M, len: K }
                    let end = d[i..].find('}').unwrap() + i;
                    let body = &d[i..end];
                    let nums: Vec<&str> = body.split(|c: char| !c.is_ascii_digit()).filter(|x| !x.is_empty()).collect();
                    out.push(format!("L{}:{}", nums[0], nums[2]));
                    i = end;
                } else if structs.contains(name) { out.push(format!("S{}", name)); }
            }
        } else { i += 1; }
    }
    out
}

fn main() {
    let structs = struct_names();
    eprintln!("{} struct names", structs.len());
    let data = std::fs::read_to_string(std::env::args().nth(1).unwrap()).unwrap();
    let defs: Defines = HashMap::new(); let inc: Vec<PathBuf> = vec![];
    let (mut trees, mut bad_order, mut bad_events, mut bad_sub, mut nodes_total) = (0,0,0,0,0usize);
    for src in data.split('\u{1}') {
        let r = parse_sv_str(src, PathBuf::from("t.sv"), &defs, &inc, false, false);
        let (t, _) = match r { Ok(x) => x, Err(_) => continue };
        trees += 1;
        let items: Vec<RefNode> = (&t).into_iter().collect();
        nodes_total += items.len();
        // 1. witness order
        let root = items[0].clone();
        let dbg = format!("{:?}", root);
        let w = debug_witness(&dbg, &structs);
        let it: Vec<String> = items.iter().filter_map(|n| match n { RefNode::Locate(l) => Some(format!("L{}:{}", l.offset, l.len)), x => { let nm = format!("{}", x); if structs.contains(&nm) { Some(format!("S{}", nm)) } else { None } } }).collect();
        if w != it { bad_order += 1; if bad_order <= 3 { let k = w.iter().zip(it.iter()).position(|(a,b)| a!=b).unwrap_or(w.len().min(it.len())); eprintln!("ORDER MISMATCH at {} dbg={:?} iter={:?} (lens {} {})", k, &w[k.saturating_sub(2)..(k+3).min(w.len())], &it[k.saturating_sub(2)..(k+3).min(it.len())], w.len(), it.len()); } }
        // 2. events balanced, Enter projection == iter
        let mut stack: Vec<RefNode> = vec![]; let mut enters: Vec<RefNode> = vec![]; let mut ok = true; let mut sizes: Vec<(usize,usize)> = vec![]; let mut starts: Vec<usize> = vec![];
        for ev in (&t).into_iter().event() { match ev { NodeEvent::Enter(x) => { starts.push(enters.len()); stack.push(x.clone()); enters.push(x); } NodeEvent::Leave(x) => { match stack.pop() { Some(y) => { if y != x { ok = false; } } None => ok = false } let s = starts.pop().unwrap(); sizes.push((s, enters.len()-s)); } } }
        if !stack.is_empty() || enters != items { ok = false; }
        if !ok { bad_events += 1; }
        // 3. sub-iteration consistency on a sample of nodes
        for (k,(s,n)) in sizes.iter().enumerate() { if k % 17 != 0 { continue; } let sub: Vec<RefNode> = items[*s].clone().into_iter().collect(); if sub.len() != *n || sub[..] != items[*s..*s+*n] { bad_sub += 1; break; } }
    }
    println!("trees={} nodes={} bad_order={} bad_events={} bad_sub={}", trees, nodes_total, bad_order, bad_events, bad_sub);
}
