use std::collections::HashMap;
use std::path::PathBuf;
use sv_parser::*;
use sv_parser_parser::{sv_parser, lib_parser, sv_parser_incomplete, pp_parser, Span, SpanInfo};

struct Rng(u64);
impl Rng { fn next(&mut self)->u64{ self.0^=self.0<<13; self.0^=self.0>>7; self.0^=self.0<<17; self.0 } fn below(&mut self,n:usize)->usize{ (self.next()%(n as u64)) as usize } }

fn canon_tree(t: &SyntaxTree) -> String { let mut h: u64 = 1469598103934665603; let mut n = 0; for x in t { n += 1; let s = match x { RefNode::Locate(l) => format!("L{}:{}:{}", l.offset, l.line, l.len), y => format!("{}", y) }; for b in s.bytes() { h ^= b as u64; h = h.wrapping_mul(1099511628211);} } format!("OK n={} h={:x}", n, h) }

// one "call": kind + input; returns canonical result
fn call(kind: usize, src: &str, buf: &mut String) -> String {
    let defs: Defines = HashMap::new(); let inc: Vec<PathBuf> = vec![];
    let r = std::panic::catch_unwind(std::panic::AssertUnwindSafe(|| match kind {
        0 => match parse_sv_str(src, PathBuf::from("t.sv"), &defs, &inc, false, false) { Ok((t,_)) => canon_tree(&t), Err(e) => format!("ERR {:?}", e) },
        1 => match parse_sv_str(src, PathBuf::from("t.sv"), &defs, &inc, false, true) { Ok((t,_)) => canon_tree(&t), Err(e) => format!("ERR {:?}", e) },
        2 => match parse_lib_str(src, PathBuf::from("t.sv"), &defs, &inc, false, false) { Ok((t,_)) => canon_tree(&t), Err(e) => format!("ERR {:?}", e) },
        3 => match preprocess_str(src, PathBuf::from("t.sv"), &defs, &inc, false, false, 0, 0) { Ok((t,d)) => { let mut k: Vec<_> = d.keys().cloned().collect(); k.sort(); format!("PP {:?} {:?}", t.text(), k.len()) }, Err(e) => format!("ERR {:?}", e) },
        _ => { // raw parser on reused buffer: same base pointer for every call
            buf.clear(); buf.push_str(src);
            let r = sv_parser(Span::new_extra(buf.as_str(), SpanInfo::default()));
            match r { Ok((_, x)) => { let d = format!("{:?}", x); format!("RAW OK {}", d.len()) }, Err(_) => "RAW ERR".to_string() } }
    }));
    match r { Ok(s) => s, Err(_) => "PANIC".to_string() }
}

fn main() {
    let data = std::fs::read_to_string(std::env::args().nth(1).unwrap()).unwrap();
    let seed: u64 = std::env::args().nth(2).unwrap().parse().unwrap();
    let n: usize = std::env::args().nth(3).unwrap().parse().unwrap();
    let mut corpus: Vec<String> = data.split('\u{1}').map(|s| s.to_string()).collect();
    // polluting inputs
    let pollute = vec![
        "`begin_keywords \"1364-2001\"\nmodule m; wire logic; endmodule\n".to_string(),
        "`begin_keywords \"1364-1995\"\nmodule m; wire signed; endmodule\n`begin_keywords \"1800-2005\"\n".to_string(),
        "`resetall\nmodule m; endmodule".to_string(),
        "`define\n".to_string(), "`define 1 x\n".to_string(), "`undef".to_string(), "`ifdef A\nmodule".to_string(),
        "`M1".to_string(), "`define R `R\n`R".to_string(), "module m; initial begin a = (((((b".to_string(),
        "`timescale 1ns".to_string(), "`include".to_string(), "`pragma foo bar = (1, \"x\"".to_string(), "`line 1".to_string(),
        "module m; wire `celldefine /* c".to_string(), "`begin_keywords \"bogus\"".to_string(), "`end_keywords".to_string(),
    ];
    let probes = vec![
        "module m; wire logic; endmodule".to_string(), "module m; wire signed; endmodule".to_string(), "module module; endmodule".to_string(),
        "module m; wire w; `celldefine // c\n/* d */ wire v; endmodule".to_string(), "module m; assign a = (A == 1) ? 1 - 1 : (A == 1) ? 1 - 1 : 1 - 1; endmodule".to_string(),
        "library l a.v; include b;".to_string(), "`define X(a) a+1\nmodule m; assign w = `X(2); endmodule".to_string(),
    ];
    corpus.extend(pollute.iter().cloned());
    let mut rng = Rng(seed.wrapping_mul(0x9E3779B97F4A7C15) | 1);
    let (mut hist, mut viol) = (0, 0);
    let mut buf = String::with_capacity(1 << 20);
    for _ in 0..n {
        let k = 1 + rng.below(8);
        for _ in 0..k { let src = if rng.below(3)==0 { &pollute[rng.below(pollute.len())] } else { &corpus[rng.below(corpus.len())] }; let kind = rng.below(5); let _ = call(kind, src, &mut buf); }
        let p = if rng.below(2)==0 { probes[rng.below(probes.len())].clone() } else { corpus[rng.below(corpus.len())].clone() };
        let kind = rng.below(5);
        let got = call(kind, &p, &mut buf);
        let p2 = p.clone();
        let fresh = std::thread::Builder::new().stack_size(256<<20).spawn(move || { let mut b = String::with_capacity(1<<20); call(kind, &p2, &mut b) }).unwrap().join().unwrap();
        hist += 1;
        if got != fresh { viol += 1; if viol <= 5 { println!("HISTORY DEPENDENCE kind={} probe={:?}\n  in-history: {}\n  fresh     : {}", kind, &p[..p.len().min(80)], &got[..got.len().min(100)], &fresh[..fresh.len().min(100)]); } }
    }
    println!("histories={} violations={}", hist, viol);
}
