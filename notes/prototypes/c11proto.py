import random,subprocess,sys,re
sys.argv=[sys.argv[0]]+sys.argv[1:]
exec(open('c04proto.py').read().split("seed=int(sys.argv[1])")[0])
seed=int(sys.argv[1]);N=int(sys.argv[2]);r=random.Random(seed)
st={'ok':0,'text_ne':0,'defs_ne':0,'err':0}
for i in range(N):
    uid[0]=0
    A=render(gen_block(r,0),r)+';\n'
    B=render(gen_block(r,0),r)+';\n'
    out=subprocess.run(['target/release/probe','ab',A,B],capture_output=True,text=True)
    o=out.stdout
    if 'TEXT_EQ' not in o: st['err']+=1; continue
    te='TEXT_EQ true' in o; de='DEFS_EQ true' in o
    if te and de: st['ok']+=1
    else:
        if not te: st['text_ne']+=1
        if not de: st['defs_ne']+=1
        if st['text_ne']+st['defs_ne']<=3: print(repr(A),repr(B),o[:400])
print(st)
