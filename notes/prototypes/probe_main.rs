use std::collections::HashMap;
use std::path::PathBuf;
use sv_parser::*;

fn main() {
    let args: Vec<String> = std::env::args().collect();
    let mode = args[1].as_str();
    let src = if args[2] == "-" { let mut s=String::new(); use std::io::Read; std::io::stdin().read_to_string(&mut s).unwrap(); s } else { args[2].clone() };
    let defs: Defines = HashMap::new();
    let inc: Vec<PathBuf> = args.iter().skip(3).map(PathBuf::from).collect();
    match mode {
        "pp" | "pps" => {
            let r = preprocess_str(&src, PathBuf::from("top.sv"), &defs, &inc, false, mode=="pps", 0, 0);
            match r {
                Ok((t, d)) => {
                    println!("TEXT[{}]: {:?}", t.text().len(), t.text());
                    let mut o = String::new();
                    for i in 0..t.text().len() {
                        match t.origin(i) { Some((p, off)) => o.push_str(&format!("{}:{}:{} ", i, p.display(), off)), None => o.push_str(&format!("{}:None ", i)) }
                    }
                    println!("ORIG: {}", o);
                    let mut ks: Vec<_> = d.iter().filter(|(k,_)| !k.starts_with("SV_COV")).collect();
                    ks.sort_by_key(|(k,_)| k.to_string());
                    println!("DEFS: {:?}", ks);
                }
                Err(e) => println!("ERR: {:?}", e),
            }
        }
        "sv" | "svi" | "lib" | "libi" => {
            let inco = mode.ends_with('i');
            let r = if mode.starts_with("sv") { parse_sv_str(&src, PathBuf::from("top.sv"), &defs, &inc, false, inco) } else { parse_lib_str(&src, PathBuf::from("top.sv"), &defs, &inc, false, inco) };
            match r {
                Ok((t, _)) => {
                    let mut leaves = vec![];
                    for n in &t { if let RefNode::Locate(l) = n { leaves.push((l.offset, l.line, l.len, t.get_str(l).unwrap().to_string())); } }
                    println!("LEAVES: {:?}", leaves);
                    if args.iter().any(|a| a=="--tree") { println!("{}", t); }
                    if args.iter().any(|a| a=="--skel") {
                        let mut wsd = 0usize; let mut o = String::new();
                        for ev in (&t).into_iter().event() {
                            match ev {
                                NodeEvent::Enter(RefNode::WhiteSpace(_)) => { wsd += 1; }
                                NodeEvent::Leave(RefNode::WhiteSpace(_)) => { wsd -= 1; }
                                NodeEvent::Enter(RefNode::Locate(l)) => { if wsd == 0 { o.push_str(&format!("'{}' ", t.get_str(l).unwrap())); } }
                                NodeEvent::Enter(x) => { if wsd == 0 { o.push_str(&format!("{} ", x)); } }
                                _ => {}
                            }
                        }
                        println!("SKEL: {}", o);
                    }
                    if args.iter().any(|a| a=="--dbg") { let root = (&t).into_iter().next().unwrap(); println!("DBG: {:?}", root); let names: Vec<String> = (&t).into_iter().map(|n| format!("{}", n)).collect(); println!("ITER: {}", names.join(" ")); }
                }
                Err(e) => println!("ERR: {:?}", e),
            }
        }
        "ab" => {
            let a = args[2].clone(); let b = args[3].clone();
            let ra = preprocess_str(&a, PathBuf::from("a.sv"), &defs, &Vec::<PathBuf>::new(), false, false, 0, 0).unwrap();
            let rb = preprocess_str(&b, PathBuf::from("b.sv"), &ra.1, &Vec::<PathBuf>::new(), false, false, 0, 0).unwrap();
            let ab = format!("{}{}", a, b);
            let rab = preprocess_str(&ab, PathBuf::from("ab.sv"), &defs, &Vec::<PathBuf>::new(), false, false, 0, 0).unwrap();
            let sep = format!("{}{}", ra.0.text(), rb.0.text());
            println!("SEP : {:?}", sep); println!("CAT : {:?}", rab.0.text()); println!("TEXT_EQ {}", sep == rab.0.text());
            let norm = |d: &Defines| { let mut v: Vec<String> = d.iter().filter(|(k,_)| !k.starts_with("SV_COV")).map(|(k,v)| format!("{}={:?}", k, v.as_ref().map(|d| (d.identifier.clone(), d.arguments.clone(), d.text.as_ref().map(|t| t.text.clone()))))).collect(); v.sort(); v };
            println!("DEFS_EQ {} {:?}", norm(&rb.1) == norm(&rab.1), norm(&rb.1));
        }
        _ => panic!(),
    }
}
