import json,random,subprocess,re,sys,ast
P='target/release/probe'
def parse(mode,src):
    out=subprocess.run([P,mode,src,'--skel'],capture_output=True,text=True).stdout
    if not out.startswith('LEAVES'): return None,None,out.strip()[:100]
    a,b=out.split('\n',1)
    return ast.literal_eval(a.split('LEAVES: ',1)[1]),b.strip(),None
items=json.load(open('corpus.json'))
r=random.Random(int(sys.argv[1])); N=int(sys.argv[2])
progs=[src for p,src,e in items if p!='library_text']
st={'ok':0,'strict_inc_differ':0,'junk_changes':0,'inc_err':0,'prefix_bad':0,'rej_inputs':0}
for _ in range(N):
    src=r.choice(progs)
    cand=src if r.random()<0.5 else 'module __w;\n'+src+'\nendmodule\n'
    ls,ss,es=parse('sv',cand)
    li,si,ei=parse('svi',cand)
    if li is None:
        if ei.startswith('ERR: Parse'): st['inc_err']+=1; print("INCOMPLETE PARSE ERR",repr(cand[:80]))
        continue
    # tiling of prefix
    pos=0
    for (o,l,n,s) in li:
        if o!=pos: st['prefix_bad']+=1; break
        pos=o+n
    if ls is None:
        st['rej_inputs']+=1
        # truncated/rejected input: incomplete gave a prefix; nothing more to compare
        continue
    if ls!=li or ss!=si: st['strict_inc_differ']+=1; print("DIFFER",repr(cand[:80])); continue
    junk=r.choice(['\n§§','\n ) ;','\n\x01 endmodule','\n¤ module'])
    lj,sj,ej=parse('svi',cand+junk)
    if lj is None or sj!=ss: st['junk_changes']+=1; print("JUNK CHANGES",repr(junk),repr(cand[:80]),ej)
    else: st['ok']+=1
print(st)
