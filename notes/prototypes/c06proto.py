import random,subprocess,re,sys,ast
def run(src):
    out=subprocess.run(['target/release/probe','pp',src],capture_output=True,text=True).stdout
    if not out.startswith('TEXT'): return None,out[:200]
    lines=out.split('\n')
    text=ast.literal_eval(lines[0].split(': ',1)[1])
    return text,lines[1]
FRAG=['ab','x1','_y','9',' ','  ','\t','\n','\r\n','\n\n',';',',','(',')','[',']','+','-','*','/','/ ','=','==',"'",'#','@','$d','"s"','"a b"','"q\\"r"','"`x"','"é"','""','"l1\\\nl2"','\\esc ','\\e+- \t','\\x\n','/* c */','/* `d "q */','/**/','// c\n','// "q `d\n','//\n','é','8\'hff','1.5','a.b','{','}','?',':','<=','>>','!','~','&','|','^','%','.']
def gen(r):
    return ''.join(r.choice(FRAG) for _ in range(r.randint(1,12)))
# lexical fault detector (unterminated string / block comment / lone backslash) and K1 model share a scanner
def scan(s):
    """returns list of items (kind,text) or None if lexical fault"""
    i=0;n=len(s);items=[]
    while i<n:
        c=s[i]
        if s.startswith('//',i):
            j=s.find('\n',i); j=n if j<0 else j+1
            items.append(('cmt',s[i:j])); i=j
        elif s.startswith('/*',i):
            j=s.find('*/',i+2)
            if j<0: return None
            items.append(('cmt',s[i:j+2])); i=j+2
        elif c=='"':
            j=i+1
            while True:
                if j>=n: return None
                if s[j]=='\\':
                    if j+1>=n: return None
                    j+=2; continue
                if s[j]=='"': break
                j+=1
            items.append(('str',s[i:j+1])); i=j+1
        elif c=='\\':
            j=i+1
            while j<n and s[j] not in ' \t\r\n': j+=1
            if j==i+1: return None
            items.append(('esc',s[i:j])); i=j
        elif c=='`': return 'directive'
        else:
            j=i
            while j<n and s[j] not in '`"\\' and not (s[j]=='/' and j+1<n and s[j+1] in '/*'): j+=1
            items.append(('txt',s[i:j])); i=j
    return items
def k1(s):
    items=scan(s)
    out=[];i=0
    # re-scan with trivia attachment after str/esc
    k=0
    res=''
    pos=0
    toks=items
    idx=0
    while idx<len(toks):
        kind,t=toks[idx]
        if kind in('str','esc'):
            res+=t
            # collect trailing trivia: whitespace pieces from following txt prefix + comments
            again=''
            idx+=1
            while idx<len(toks):
                k2,t2=toks[idx]
                if k2=='cmt':
                    res+=t2; again+=t2; idx+=1; continue
                if k2=='txt':
                    m=re.match(r'[ \t\r\n]+',t2)
                    if not m: break
                    ws=m.group(0)
                    # split into pieces: space1 | multispace1
                    p=0
                    while p<len(ws):
                        if ws[p] in ' \t':
                            q=p
                            while q<len(ws) and ws[q] in ' \t': q+=1
                            res+=ws[p:q]; again+=ws[p:q]; p=q
                        else:
                            res+=ws[p:]; p=len(ws)
                    rest=t2[len(ws):]
                    if rest:
                        toks[idx]=('txt',rest); break
                    idx+=1; continue
                break
            res+=again
            continue
        res+=t; idx+=1
    return res
seed=int(sys.argv[1]);N=int(sys.argv[2]);r=random.Random(seed)
st={'identical':0,'k1':0,'viol':0,'err_expected':0,'err_unexpected':0,'ok_but_fault':0}
for _ in range(N):
    s=gen(r)
    items=scan(s)
    text,_o=run(s)
    if text is None:
        if items is None: st['err_expected']+=1
        else: st['err_unexpected']+=1; print("UNEXPECTED ERR",repr(s),_o)
        continue
    if items is None: st['ok_but_fault']+=1; print("ACCEPTED FAULTY?",repr(s)); continue
    if text==s: st['identical']+=1
    elif text==k1(s): st['k1']+=1
    else:
        st['viol']+=1
        if st['viol']<=5: print("VIOL",repr(s),"\n got",repr(text),"\n k1 ",repr(k1(s)))
print(st)
