import os,subprocess,re,sys,shutil
P=sys.argv[1]
D='/tmp/scratch/c09dir'
def run(top,cwd=None,incs=()):
    out=subprocess.run([P,'pp',top]+list(incs),capture_output=True,text=True,cwd=cwd)
    o=out.stdout
    if out.returncode!=0 and not o: return 'CRASH rc=%d %s'%(out.returncode,out.stderr.strip()[-60:])
    if o.startswith('TEXT'): return 'OK '+re.findall(r't\d+',o.split('\n')[0]).__repr__()
    m=re.match(r'ERR: (.*)',o)
    e=m.group(1)
    k=e.count('Include {')
    core=re.sub(r'Include \{ source: ','',e).split(' }')[0]
    return 'ERR wrappers=%d core=%s'%(k,core[:60])
def fresh():
    shutil.rmtree(D,ignore_errors=True); os.makedirs(D)
# include chain depth n: top includes f1 ... fn contains token
res={}
for n in [1,2,15,63,64,65,66,80]:
    fresh()
    for i in range(1,n+1):
        body='`include "f%d.svh"\n'%(i+1) if i<n else 't%d\n'%n
        open('%s/f%d.svh'%(D,i),'w').write(body)
    res[('inc-chain',n)]=run('`include "f1.svh"\n',cwd=D)
# include cycles length L
for L in [1,2,5]:
    fresh()
    for i in range(L): open('%s/c%d.svh'%(D,i),'w').write('t%d\n`include "c%d.svh"\n'%(i,(i+1)%L))
    res[('inc-cycle',L)]=run('`include "c0.svh"\n',cwd=D)
# macro chain
for n in [1,63,64,65,80]:
    s='`define M0 t0\n'+''.join('`define M%d `M%d\n'%(i,i-1) for i in range(1,n))+'`M%d\n'%(n-1)
    res[('macro-chain-usages',n)]=run(s)
# macro cycles
for L in [1,2,8]:
    s=''.join('`define C%d `C%d\n'%(i,(i+1)%L) for i in range(L))+'`C0\n'
    res[('macro-cycle',L)]=run(s)
# macro -> include -> macro cycle
fresh(); open(D+'/a.svh','w').write('`define INC `include "a.svh"\n`INC\n')
res[('macro-include-cycle',1)]=run('`include "a.svh"\n',cwd=D)
# mixed legal: include depth 10 each using macro chain depth 10
fresh()
for i in range(1,11):
    body=''.join('`define L%d_%d `L%d_%d\n'%(i,j,i,j-1) for j in range(1,10))
    body='`define L%d_0 t%d\n'%(i,i)+body+'`L%d_9\n'%i+('`include "g%d.svh"\n'%(i+1) if i<10 else '')
    open('%s/g%d.svh'%(D,i),'w').write(body)
res[('mixed 10x10',0)]=run('`include "g1.svh"\n',cwd=D)
for k,v in res.items(): print(k,'->',v[:110])
