import subprocess,re
body=open('/tmp/scratch/inc/body.svh').read()
top='module m;\nwire z;\n`include "body2.svh"\nwire y;\nendmodule\n'
import itertools
toks=[m.start() for m in re.finditer(r'\S+',body)]
# finer: every non-space char start of token-ish
toks=sorted(set([m.start() for m in re.finditer(r'[A-Za-z_0-9]+|[^\sA-Za-z_0-9]',body)]))
for o in toks:
    open('/tmp/scratch/inc/body2.svh','w').write(body[:o]+'§'+body[o:])
    r=subprocess.run(['target/release/probe','sv',top,'/tmp/scratch/inc'],capture_output=True,text=True).stdout.strip()
    m=re.match(r'ERR: Parse\(Some\(\("(.*)", (\d+)\)\)\)',r)
    ok = m and m.group(1).endswith('body2.svh') and int(m.group(2))<=o
    print(o, repr(body[o:o+6]), r[:70], "OK" if ok else "<<<<<< VIOL")
