import json,random,subprocess,re,sys,ast
P=sys.argv[3] if len(sys.argv)>3 else 'target/release/probe'
def parse(src):
    out=subprocess.run([P,'sv',src,'--skel'],capture_output=True,text=True).stdout
    if not out.startswith('LEAVES'): return None,out.strip()[:120]
    first,rest=out.split('\n',1)
    leaves=ast.literal_eval(first.split('LEAVES: ',1)[1])
    tree=rest
    return leaves,tree
uid=[0]
def piece(r,allow_dir=True):
    k=r.random()
    if k<0.25: return ' '
    if k<0.35: return '\t'
    if k<0.5: return '\n'
    if k<0.55: return '\r\n'
    if k<0.65: return '/* c%d */'%r.randint(0,99)
    if k<0.72: return '// lc `x "q\n'
    if not allow_dir: return ' '
    uid[0]+=1
    return r.choice(['`celldefine ','`endcelldefine\n','`default_nettype none\n','`default_nettype wire ','`timescale 1ns/1ps ','`timescale 10 us / 100 ns\n','`unconnected_drive pull1 ','`nounconnected_drive\n','`line 7 "f.v" 1 ','`define TRV%d x y\n'%uid[0],'`undef TRVQ%d '%uid[0]])
def run_of(r,prev_tok,allow_dir):
    n=r.randint(1,3)
    s=''.join(piece(r,allow_dir) for _ in range(n))
    if prev_tok.startswith('\\') or prev_tok.endswith('/') : s=' '+s
    return s
def istrivia(t): return t.strip()=='' or t.startswith('//') or t.startswith('/*')
items=json.load(open('corpus.json'))
r=random.Random(int(sys.argv[1])); N=int(sys.argv[2])
progs=[src for p,src,e in items if p!='library_text']
st={'same':0,'accdiff':0,'treediff':0,'skipped':0}
for it in range(N):
    src=r.choice(progs)
    if '`' in src or '\f' in src: st['skipped']+=1; continue
    cand=src
    leaves,t0=parse(cand)
    if leaves is None:
        cand='module __w;\n'+src+'\nendmodule\n'
        leaves,t0=parse(cand)
        if leaves is None: st['skipped']+=1; continue
    # K1: pp may have doubled blanks after strings: rebuild source from leaves text (pp text) to be safe
    toks=[]
    for (o,l,n,s) in leaves:
        if istrivia(s):
            if toks and toks[-1][0]=='ws': toks[-1]=('ws',toks[-1][1]+s)
            else: toks.append(('ws',s))
        else: toks.append(('tok',s))
    allow_dir = r.random()<0.7
    out='';prev=''
    for k,(kind,s) in enumerate(toks):
        if kind=='tok': out+=s; prev=s
        else:
            if k==0 or k==len(toks)-1: out+=s
            elif prev.startswith('"'): out+=run_of(r,prev,False)  # K1 steering: no directive right after a string
            else: out+=run_of(r,prev,allow_dir)
    l1,t1=parse(out)
    if l1 is None:
        st['accdiff']+=1
        if st['accdiff']<=5: print("ACCDIFF",t1,"\n  orig:",repr(cand[:300]),"\n  new :",repr(out[:400]))
        continue
    # remove trivia-directive nodes? Display hides WhiteSpace subtrees incl directives
    if t0==t1: st['same']+=1
    else:
        st['treediff']+=1
        if st['treediff']<=3:
            a=t0.split(' ');b=t1.split(' ')
            for i,(x,y) in enumerate(zip(a,b)):
                if x!=y: print("TREEDIFF at tok",i,a[max(0,i-6):i+4],b[max(0,i-6):i+4]); break
            else: print("TREEDIFF len",len(a),len(b),a[-6:],b[-6:])
print(st)
