import random,subprocess,re,sys,ast
def run(mode,src):
    out=subprocess.run(['target/release/probe',mode,src],capture_output=True,text=True).stdout
    if not out.startswith('TEXT'): return None,out.strip()[:200]
    lines=out.split('\n')
    return ast.literal_eval(lines[0].split(': ',1)[1]),lines[2]
def lex_nocomment(s):
    toks=re.findall(r'"(?:[^"\\]|\\.)*"|//[^\n]*\n?|/\*.*?\*/|[A-Za-z0-9_$]+|`|[^\sA-Za-z0-9_$"]',s,re.S)
    return [t for t in toks if not (t.startswith('//') or t.startswith('/*'))]
FRAG=['a1','b2',' ','  ','\n',';','(',')','+','"s";','"a b")','/* c */','/*c*/','// c\n','//c\n','`define M 1 /* dc */ 2\n','`define N(x) x/* dn */x // tail\n','`M','`M ','`N(a/* ac */b)','`N( q )','`ifdef M\n','`ifdef Q\n','`else\n','`endif\n','`undef M\n','`celldefine\n','`timescale 1ns/1ps\n','x','y']
def gen(r):
    # keep conditionals balanced: simple approach: generate, then fix by counting
    parts=[r.choice(FRAG) for _ in range(r.randint(2,14))]
    s='';depth=0;has_else=[]
    for p in parts:
        if p.startswith('`ifdef'): depth+=1; has_else.append(False); s+=p
        elif p.startswith('`else'):
            if depth and not has_else[-1]: has_else[-1]=True; s+=p
        elif p.startswith('`endif'):
            if depth: depth-=1; has_else.pop(); s+=p
        else: s+=p
    s+='\n`endif\n'*depth
    return s
seed=int(sys.argv[1]);N=int(sys.argv[2]);r=random.Random(seed)
st={'same':0,'tokdiff':0,'errdiff':0,'botherr':0,'comment_left':0}
seen=set()
for _ in range(N):
    s=gen(r)
    if s=='-': continue
    a,da=run('pp',s); b,db=run('pps',s)
    if a is None or b is None:
        if a is None and b is None and da==db: st['botherr']+=1
        else: st['errdiff']+=1; print("ERRDIFF",repr(s),da,db)
        continue
    ta=lex_nocomment(a); tb=lex_nocomment(b)
    # comments left in stripped output outside `define lines
    b_nodef=re.sub(r'`define[^\n]*','',b)
    left=[t for t in re.findall(r'"(?:[^"\\]|\\.)*"|//[^\n]*\n?|/\*.*?\*/',b_nodef,re.S) if t[0]=='/']
    if left:
        st['comment_left']+=1
        k=('left',bool(re.search(r'"\s*/[/*]',s)))
        if k not in seen: seen.add(k); print("COMMENT LEFT",repr(s),"->",repr(b))
    if ta==tb and da==db: st['same']+=1
    else:
        st['tokdiff']+=1
        if st['tokdiff']<=6: print("TOKDIFF",repr(s),"\n  pp :",repr(a),"\n  pps:",repr(b))
print(st)
