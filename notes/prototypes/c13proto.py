import re,subprocess
s=open('/repo/sv-parser-parser/src/keywords.rs').read()
T={}
for m in re.finditer(r'pub\(crate\) const (\w+): &\[&str\] = &\[(.*?)\];',s,re.S):
    T[m.group(1)]=re.findall(r'"([^"]+)"',m.group(2))
V={'1364-1995':'KEYWORDS_1364_1995','1364-2001':'KEYWORDS_1364_2001','1364-2001-noconfig':'KEYWORDS_1364_2001_NOCONFIG','1364-2005':'KEYWORDS_1364_2005','1800-2005':'KEYWORDS_1800_2005','1800-2009':'KEYWORDS_1800_2009','1800-2012':'KEYWORDS_1800_2012','1800-2017':'KEYWORDS_1800_2017'}
ALL=T['KEYWORDS_1800_2017']
def run(src):
    out=subprocess.run(['target/release/probe','sv',src],capture_output=True,text=True).stdout
    return out.startswith('LEAVES')
bad=[]
n=0
for v,tab in V.items():
    res=set(T[tab])
    for k in ALL:
        for form,src in (('net','`begin_keywords "%s"\nmodule m; wire %s; endmodule\n`end_keywords\n'%(v,k)),('mod','`begin_keywords "%s"\nmodule %s; endmodule\n`end_keywords\n'%(v,k)),('inst','`begin_keywords "%s"\nmodule m; sub %s (.a(b)); endmodule\n`end_keywords\n'%(v,k))):
            acc=run(src); n+=1
            if k in res and acc: bad.append((v,k,form,'reserved but accepted'))
            if k not in res and not acc: bad.append((v,k,form,'not reserved but rejected'))
print(n,"cases;",len(bad),"unexpected")
from collections import Counter
print(Counter((f,w) for (_,_,f,w) in bad))
for b in bad[:40]: print(b)
