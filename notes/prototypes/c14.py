import sys,ast,subprocess,re
src=open(sys.argv[1]).read()
bad=sys.argv[2] if len(sys.argv)>2 else '§'
out=subprocess.run(['target/release/probe','sv',src],capture_output=True,text=True).stdout
leaves=ast.literal_eval(out.split('LEAVES: ',1)[1].strip())
b=src.encode()
n=0;viol=0;eq=0
for (o,l,ln,s) in leaves:
    if s.strip()=='' or s.startswith('//') or s.startswith('/*'): continue
    m=(b[:o]+bad.encode()+b[o:]).decode()
    r=subprocess.run(['target/release/probe','sv',m],capture_output=True,text=True).stdout
    n+=1
    mm=re.match(r'ERR: Parse\(Some\(\("top.sv", (\d+)\)\)\)',r)
    if not mm: viol+=1; print("NOT PARSE ERR at",o,repr(s),r[:100]); continue
    p=int(mm.group(1))
    if p>o: viol+=1; print("AFTER",o,p,repr(s))
    if p==o: eq+=1
    else: print("BEFORE fault=%d pos=%d tok=%r ctx=%r"%(o,p,s,b[p:o].decode()))
print("n",n,"viol",viol,"exact",eq)
