sequence `unconnected_drive pull1 data_check;
// lc `x "q
 int	

x;
a	 `celldefine ##1	(!a,`nounconnected_drive
x	 = `celldefine data_in)`endcelldefine
 
##1
!b[*0:$]`celldefine // lc `x "q
##1/* c81 */b`endcelldefine
	&&`endcelldefine
 (data_out /* c19 */ == // lc `x "q

x);
/* c1 */endsequence`endcelldefine

`line 7 "f.v" 1 property 
data_check_p;	/* c7 */
int`timescale 10 us / 100 ns
x;

a 
##1 (!a,
`celldefine  x 	`line 7 "f.v" 1 =
data_in)/* c51 *//* c65 */|=>
`celldefine !b[*0:$]`celldefine ##1// lc `x "q

// lc `x "q
b

 &&// lc `x "q
`undef TRVQ3082 (data_out
  ==`nounconnected_drive
`undef TRVQ3084 	x);
endproperty